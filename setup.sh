#!/bin/sh
# offline setup: nothing to build (python3 + verus are pre-installed); warm up verus once
set -e
cd "$(dirname "$0")"
mkdir -p build evidence
cat > build/warmup.rs <<'EOW'
use vstd::prelude::*;
verus! { proof fn warm() ensures 1 + 1 == 2int {} }
fn main() {}
EOW
(cd build && verus warmup.rs >/dev/null 2>&1 || true)
echo setup ok
