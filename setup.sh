#!/bin/sh
# offline setup: python3 + verus are pre-installed; warm up verus and pre-build the dependencies used by the macro
# expansion step (cargo +nightly rustc -Zunpretty=expanded on a scratch copy of /repo) into build/exp-target
set -e
cd "$(dirname "$0")"
mkdir -p build evidence
cat > build/warmup.rs <<'EOW'
use vstd::prelude::*;
verus! { proof fn warm() ensures 1 + 1 == 2int {} }
fn main() {}
EOW
(cd build && verus warmup.rs >/dev/null 2>&1 || true)
python3 - <<'EOP' || true
import sys
sys.path.insert(0, "vx")
import gen
print("expanded:", gen.ensure_expanded())
print("derive samples:", gen.ensure_expanded("units/u2_sysdata/derive_samples.rs"))
import replay
print("bounded-search harness:", replay.build())
EOP
echo setup ok
