# U2: the provided SystemData / Accessor impls (src/system.rs, src/world/data.rs) and the 26 real expansions of impl_data!
import os, string
SY = "src/system.rs"
DA = "src/world/data.rs"
W = "src/world/mod.rs"
EX = "@expanded"
HERE = os.path.dirname(os.path.abspath(__file__))

TYPE_RULES = [
    (r"\bTypeId::of::<\s*([A-Za-z_0-9]+)\s*>\(\)", r"vx_type_of::<\1>()"),
]
import gen as _gen
PUBF = [(r"(?m)^(\s*)([a-z_][a-z0-9_]*\s*:)", r"\1pub \2"), _gen.pub_tuple_fields]
RRT = PUBF + [(r"^pub struct", "#[verifier::reject_recursive_types(T)]\npub struct")]
LETTERS = list(string.ascii_uppercase)

SD_TRAIT = """pub trait SystemData<'a>: Sized {
    // C06 vocabulary: what the type declares, what one setup call logs, and which guards a fetched value holds
    spec fn spec_reads() -> Seq<ResourceId>;
    spec fn spec_writes() -> Seq<ResourceId>;
    spec fn spec_setup_trace() -> Seq<int>;
    spec fn held(&self) -> Multiset<Guard>;"""
ACC_TRAIT = """pub trait Accessor: Sized {
    spec fn spec_r(&self) -> Seq<ResourceId>;
    spec fn spec_w(&self) -> Seq<ResourceId>;"""
DSD_TRAIT = """pub trait DynamicSystemData<'a>: Sized {
    type Accessor: Accessor;
    spec fn dyn_setup_trace(accessor: &Self::Accessor) -> Seq<int>;
    spec fn dyn_reads(accessor: &Self::Accessor) -> Seq<ResourceId>;
    spec fn dyn_writes(accessor: &Self::Accessor) -> Seq<ResourceId>;
    spec fn dyn_held(&self) -> Multiset<Guard>;"""

def sd_impl(header, reads, writes, trace, held):
    return ("%s {\n    open spec fn spec_reads() -> Seq<ResourceId> { %s }\n    open spec fn spec_writes() -> Seq<ResourceId> { %s }\n"
            "    open spec fn spec_setup_trace() -> Seq<int> { %s }\n    open spec fn held(&self) -> Multiset<Guard> { %s }") % (header, reads, writes, trace, held)

E = "Seq::empty()"
UNIT_IMPL = sd_impl("impl<'a> SystemData<'a> for ()", E, E, E, "Multiset::empty()")
PH_IMPL = sd_impl("impl<'a, T: ?Sized> SystemData<'a> for PhantomData<T>", E, E, E, "Multiset::empty()")
READ_IMPL = sd_impl("impl<'a, T: Resource, F: SetupHandler<T>> SystemData<'a> for Read<'a, T, F>", "seq![rid::<T>()]", E, "seq![handler_call::<F, T>()]",
                    "Multiset::singleton(Guard { cell: self.inner.cell(), excl: false })")
WRITE_IMPL = sd_impl("impl<'a, T: Resource, F: SetupHandler<T>> SystemData<'a> for Write<'a, T, F>", E, "seq![rid::<T>()]", "seq![handler_call::<F, T>()]",
                     "Multiset::singleton(Guard { cell: self.inner.cell(), excl: true })")
OREAD_IMPL = sd_impl("impl<'a, T: Resource, F> SystemData<'a> for Option<Read<'a, T, F>>", "seq![rid::<T>()]", E, E,
                     "match self { Some(r) => Multiset::singleton(Guard { cell: r.inner.cell(), excl: false }), None => Multiset::empty() }")
OWRITE_IMPL = sd_impl("impl<'a, T: Resource, F> SystemData<'a> for Option<Write<'a, T, F>>", E, "seq![rid::<T>()]", E,
                      "match self { Some(r) => Multiset::singleton(Guard { cell: r.inner.cell(), excl: true }), None => Multiset::empty() }")
SA_IMPL = """impl<'a, T: SystemData<'a>> Accessor for StaticAccessor<T> {
    // the static accessor reports exactly the type-level declaration
    open spec fn spec_r(&self) -> Seq<ResourceId> { T::spec_reads() }
    open spec fn spec_w(&self) -> Seq<ResourceId> { T::spec_writes() }"""
UNIT_ACC = """impl Accessor for () {
    open spec fn spec_r(&self) -> Seq<ResourceId> { Seq::empty() }
    open spec fn spec_w(&self) -> Seq<ResourceId> { Seq::empty() }"""
PH_ACC = """impl<T: ?Sized> Accessor for PhantomData<T> {
    open spec fn spec_r(&self) -> Seq<ResourceId> { Seq::empty() }
    open spec fn spec_w(&self) -> Seq<ResourceId> { Seq::empty() }"""
DSD_BLANKET = """impl<'a, T: SystemData<'a>> DynamicSystemData<'a> for T {
    type Accessor = StaticAccessor<T>;
    open spec fn dyn_setup_trace(accessor: &StaticAccessor<T>) -> Seq<int> { T::spec_setup_trace() }
    open spec fn dyn_reads(accessor: &StaticAccessor<T>) -> Seq<ResourceId> { T::spec_reads() }
    open spec fn dyn_writes(accessor: &StaticAccessor<T>) -> Seq<ResourceId> { T::spec_writes() }
    open spec fn dyn_held(&self) -> Multiset<Guard> { self.held() }"""

def concat(parts):
    return " + ".join(parts) if parts else E

def tuple_impl(n):
    ps = LETTERS[:n]
    hdr = "impl<'a, %s> SystemData<'a> for (%s,)" % (", ".join("%s: SystemData<'a>" % p for p in ps), ", ".join(ps))
    held = "self.0.held()" + "".join(".add(self.%d.held())" % i for i in range(1, n))
    return sd_impl(hdr, concat(["%s::spec_reads()" % p for p in ps]), concat(["%s::spec_writes()" % p for p in ps]),
                   concat(["%s::spec_setup_trace()" % p for p in ps]), held)

def tuple_owner_re(n):
    ps = LETTERS[:n]
    return r"SystemData < 'a > for \( %s , \) where" % " , ".join(ps) if n == 1 else r"SystemData < 'a > for \( %s \) where" % " , ".join(ps)

def tuple_vspec(n):
    ps = LETTERS[:n]
    out = []
    hints_r, hints_w = [], []
    for k in range(1, n):
        pre_r = concat(["%s::spec_reads()" % p for p in ps[:k]])
        pre_w = concat(["%s::spec_writes()" % p for p in ps[:k]])
        hints_r.append("lemma_guards_concat(%s, %s::spec_reads(), false, world);" % (pre_r, ps[k]))
        hints_w.append("lemma_guards_concat(%s, %s::spec_writes(), true, world);" % (pre_w, ps[k]))
    out.append("@fn Tuple%d::setup\n" % n)
    out.append("@fn Tuple%d::fetch\n@entry\nproof { %s %s }\n" % (n, " ".join(hints_r), " ".join(hints_w)))
    out.append("@fn Tuple%d::reads\n" % n)
    out.append("@fn Tuple%d::writes\n" % n)
    return "\n".join(out)

open(os.path.join(HERE, "tuples.gen.vspec"), "w").write("//! generated by unit.py: entry hints of the 26 tuple impls (distribution of guards_of over concatenation)\n\n" + "\n".join(tuple_vspec(n) for n in range(1, 27)))

def fn4(prefix, file, owner, emit_owner, extra=None):
    extra = extra or {}
    return [dict(dict(key="%s::%s" % (prefix, f), file=file, kind="fn", name=f, owner=owner, emit_owner=emit_owner, erase_lifetimes=False), **extra.get(f, {}))
            for f in ("setup", "fetch", "reads", "writes")]

ANON = dict(sig_rules=[(r"\(\s*_\s*:", "(world:")])
items = [
    dict(key="ResourceId", file=W, kind="struct", name="ResourceId", rules=PUBF, erase_lifetimes=False),
    dict(key="ResourceId::new", file=W, kind="fn", name="new", owner=r"^impl ResourceId$", emit_owner="impl ResourceId", erase_lifetimes=False),
    dict(key="ResourceId::new_with_dynamic_id", file=W, kind="fn", name="new_with_dynamic_id", owner=r"^impl ResourceId$", emit_owner="impl ResourceId", erase_lifetimes=False),
    dict(key="ResourceId::from_type_id_and_dynamic_id", file=W, kind="fn", name="from_type_id_and_dynamic_id", owner=r"^impl ResourceId$", emit_owner="impl ResourceId", erase_lifetimes=False),
    dict(key="Read", file=DA, kind="struct", name="Read", rules=RRT, erase_lifetimes=False),
    dict(key="Write", file=DA, kind="struct", name="Write", rules=RRT, erase_lifetimes=False),
    dict(key="StaticAccessor", file=SY, kind="struct", name="StaticAccessor", rules=PUBF + [(r"PhantomData<fn\(\) -> T>", "PhantomData<T>")], erase_lifetimes=False),
]
items += fn4("SystemData", SY, r"^trait SystemData", SD_TRAIT)
items += [dict(key="Accessor::%s" % f, file=SY, kind="fn", name=f, owner=r"^trait Accessor", emit_owner=ACC_TRAIT, erase_lifetimes=False) for f in ("try_new", "reads", "writes")]
items += [dict(key="DynamicSystemData::%s" % f, file=SY, kind="fn", name=f, owner=r"^trait DynamicSystemData", emit_owner=DSD_TRAIT, erase_lifetimes=False) for f in ("setup", "fetch")]
items += fn4("Unit", SY, r"impl < 'a > SystemData < 'a > for \( \)", UNIT_IMPL, dict(setup=ANON, fetch=ANON))
items += fn4("PhantomData", SY, r"SystemData < '_ > for PhantomData", PH_IMPL, dict(setup=ANON, fetch=dict(sig_rules=[(r"\(\s*_\s*:\s*&\s*World", "(world: &'a World")])))
items += [dict(key="StaticAccessor::%s" % f, file=SY, kind="fn", name=f, owner=r"Accessor for StaticAccessor", emit_owner=SA_IMPL, erase_lifetimes=False) for f in ("try_new", "reads", "writes")]
items += [dict(key="UnitAccessor::%s" % f, file=SY, kind="fn", name=f, owner=r"^impl Accessor for \( \)", emit_owner=UNIT_ACC, erase_lifetimes=False) for f in ("try_new", "reads", "writes")]
items += [dict(key="PhantomAccessor::%s" % f, file=SY, kind="fn", name=f, owner=r"Accessor for PhantomData", emit_owner=PH_ACC, erase_lifetimes=False) for f in ("try_new", "reads", "writes")]
items += [dict(key="DSD_blanket::%s" % f, file=SY, kind="fn", name=f, owner=r"DynamicSystemData < 'a > for T", emit_owner=DSD_BLANKET, erase_lifetimes=False,
               sig_rules=[(r"\(\s*_\s*:", "(accessor:")]) for f in ("setup", "fetch")]
items += [dict(key="Read::from", file=DA, kind="fn", name="from", owner=r"From < Fetch < 'a , T > > for Read", emit_owner="impl<'a, T, F> Read<'a, T, F>", erase_lifetimes=False),
          dict(key="Write::from", file=DA, kind="fn", name="from", owner=r"From < FetchMut < 'a , T > > for Write", emit_owner="impl<'a, T, F> Write<'a, T, F>", erase_lifetimes=False)]
INTO_R = dict(fetch=dict(body_rules=[(r"world\.fetch::<T>\(\)\.into\(\)", "Read::from(world.fetch::<T>())")]))
INTO_W = dict(fetch=dict(body_rules=[(r"world\.fetch_mut::<T>\(\)\.into\(\)", "Write::from(world.fetch_mut::<T>())")]))
INTO_OR = dict(setup=ANON, fetch=dict(pre_body_rules=[(r"\.map\(Into::into\)", ".map(Read::from)")]))
INTO_OW = dict(setup=ANON, fetch=dict(pre_body_rules=[(r"\.map\(Into::into\)", ".map(Write::from)")]))
items += fn4("Read", DA, r"SystemData < 'a > for Read <", READ_IMPL, INTO_R)
items += fn4("Write", DA, r"SystemData < 'a > for Write <", WRITE_IMPL, INTO_W)
items += fn4("OptionRead", DA, r"SystemData < 'a > for Option < Read", OREAD_IMPL, INTO_OR)
items += fn4("OptionWrite", DA, r"SystemData < 'a > for Option < Write", OWRITE_IMPL, INTO_OW)
for n in range(1, 27):
    items += fn4("Tuple%d" % n, EX, tuple_owner_re(n), tuple_impl(n))

# ---- derive samples: field types parsed from derive_samples.rs; spec functions are *defined* from the field list by the
# property statement (declared access = concatenation of the members', held guards = sum, setup = composition)
import re, sys
sys.path.insert(0, os.path.join(HERE, "..", "..", "vx"))
from rustlex import scan_items, lex, match_map, angle_close, strip_comments

def split_commas(t):
    out, depth, cur = [], 0, []
    for ch in t:
        if ch in "<([{":
            depth += 1
        elif ch in ">)]}":
            depth -= 1
        if ch == "," and depth == 0:
            out.append("".join(cur).strip()); cur = []
        else:
            cur.append(ch)
    if "".join(cur).strip():
        out.append("".join(cur).strip())
    return out

def parse_sample(item):
    txt = strip_comments(item.text)
    m = re.match(r"pub struct (S\d+)\s*<(.*?)>\s*(where[^{(;]*)?\s*([({])", txt.split("]", 1)[1].strip() if txt.lstrip().startswith("#") else txt, re.S)
    toks = lex(txt)
    i = [k for k, t in enumerate(toks) if t.text == "struct"][0]
    name = toks[i + 1].text
    g0 = i + 2
    g1 = angle_close(toks, g0)
    generics = txt[toks[g0].end:toks[g1].start].strip()
    rest = txt[toks[g1].end:]
    mm = match_map(toks)
    k = g1 + 1
    while toks[k].text not in ("{", "("):
        k += 1
    where_before = txt[toks[g1].end:toks[k].start].strip()
    body = txt[toks[k].end:toks[mm[k]].start]
    tuple_like = toks[k].text == "("
    where_after = ""
    if tuple_like:
        where_after = txt[toks[mm[k]].end:].strip().rstrip(";").strip()
    where = (where_before or where_after)
    where = where[5:].strip().rstrip(",") if where.startswith("where") else ""
    fields = []
    for n, f in enumerate(split_commas(body)):
        if tuple_like:
            fields.append((str(n), f.strip()))
        else:
            fn, ft = f.split(":", 1)
            fields.append((fn.strip(), ft.strip()))
    args = ", ".join(re.split(r"[:=]", g.strip())[0].strip() for g in split_commas(generics))
    tparams = [a.strip() for a in args.split(",") if a.strip() and not a.strip().startswith("'")]
    return dict(name=name, generics=generics, args=args, where=where, fields=fields, tparams=tparams)

SAMPLES = [parse_sample(it) for it in scan_items(open(os.path.join(HERE, "derive_samples.rs")).read(), "derive_samples.rs") if it.kind == "struct" and re.match(r"S\d+$", it.name)]

def sample_impl(sp):
    bounds = ([sp["where"]] if sp["where"] else []) + ["%s: SystemData<'a>" % ft for _, ft in sp["fields"]]
    hdr = "impl<%s> SystemData<'a> for %s<%s> where %s" % (sp["generics"], sp["name"], sp["args"], ", ".join(bounds))
    held = ".add(".join("self.%s.held()" % fn for fn, _ in sp["fields"]) + ")" * (len(sp["fields"]) - 1)
    return sd_impl(hdr, concat(["<%s as SystemData<'a>>::spec_reads()" % ft for _, ft in sp["fields"]]), concat(["<%s as SystemData<'a>>::spec_writes()" % ft for _, ft in sp["fields"]]),
                   concat(["<%s as SystemData<'a>>::spec_setup_trace()" % ft for _, ft in sp["fields"]]), held)

def sample_vspec(sp):
    fts = [ft for _, ft in sp["fields"]]
    hr, hw = [], []
    for k in range(1, len(fts)):
        hr.append("lemma_guards_concat(%s, <%s as SystemData<'a>>::spec_reads(), false, world);" % (concat(["<%s as SystemData<'a>>::spec_reads()" % f for f in fts[:k]]), fts[k]))
        hw.append("lemma_guards_concat(%s, <%s as SystemData<'a>>::spec_writes(), true, world);" % (concat(["<%s as SystemData<'a>>::spec_writes()" % f for f in fts[:k]]), fts[k]))
    n = sp["name"]
    return "@fn %s::setup\n\n@fn %s::fetch\n@entry\nproof { %s %s }\n\n@fn %s::reads\n\n@fn %s::writes\n" % (n, n, " ".join(hr), " ".join(hw), n, n)

open(os.path.join(HERE, "derive.gen.vspec"), "w").write("//! generated by unit.py: entry hints of the derive-sample impls\n\n" + "\n".join(sample_vspec(sp) for sp in SAMPLES))
DS = "@derive_samples"
SHRED = [(r"\bshred::", "")]
items += [dict(key="ReadExpect", file=DA, kind="type", name="ReadExpect", erase_lifetimes=False), dict(key="WriteExpect", file=DA, kind="type", name="WriteExpect", erase_lifetimes=False)]
items += [dict(key=r, file=DS, kind="struct", name=r, erase_lifetimes=False, rules=[(r"^pub struct", "#[derive(Default)]\npub struct")]) for r in ("ResA", "ResB", "ResC", "ResD")]
for sp in SAMPLES:
    rr = PUBF + ([(r"^pub struct", "".join("#[verifier::reject_recursive_types(%s)]\n" % t for t in sp["tparams"]) + "pub struct")] if sp["tparams"] else [])
    items.append(dict(key=sp["name"], file=DS, kind="struct", name=sp["name"], erase_lifetimes=False, rules=rr))
for sp in SAMPLES:
    for f in ("setup", "fetch", "reads", "writes"):
        items.append(dict(key="%s::%s" % (sp["name"], f), file=DS, kind="fn", name=f, owner=r"SystemData < 'a > for %s <" % sp["name"], emit_owner=sample_impl(sp), erase_lifetimes=False,
                          sig_rules=SHRED, body_rules=SHRED))

UNIT = dict(
    name="u2_sysdata",
    derive_samples="derive_samples.rs",
    expand=True,
    prelude=["prelude.rs", "../u1_sched/prelude_it.rs"],
    contracts=["sysdata.vspec", "tuples.gen.vspec", "derive.gen.vspec"],
    lib=[],
    type_rules=TYPE_RULES,
    derive_keep=("PartialEq", "Eq", "Hash", "Default"), structural=False,
    method_renames={"iter": "vx_iter", "extend": "vx_extend"},
    macro_rules={
        "vec": lambda a: ("vx_vec1(%s)" % a) if a.strip() else "Vec::new()",
        "panic": lambda a: "vx_panic()",
    },
    items=items,
)
