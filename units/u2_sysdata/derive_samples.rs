// Sample family for the derive macro (C06): copied into a scratch copy of /repo as examples/vx_derive_samples.rs and
// expanded by rustc; the *generated* impls are what unit U2 verifies.  Named and tuple structs, 1..8 fields, extra
// lifetimes, type parameters, where-clauses, nested members.
use std::marker::PhantomData;

use shred::{Read, ReadExpect, ResourceId, SystemData, World, Write, WriteExpect};

#[derive(Default)]
pub struct ResA;
#[derive(Default)]
pub struct ResB;
#[derive(Default)]
pub struct ResC;
#[derive(Default)]
pub struct ResD;

#[derive(SystemData)]
pub struct S01<'a> {
    a: Read<'a, ResA>,
}

#[derive(SystemData)]
pub struct S02<'a> {
    a: Read<'a, ResA>,
    b: Write<'a, ResB>,
}

#[derive(SystemData)]
pub struct S03<'a>(Read<'a, ResA>, Write<'a, ResB>, Option<Read<'a, ResC>>);

#[derive(SystemData)]
pub struct S04<'a, 'b> {
    a: Read<'a, ResA>,
    marker: PhantomData<&'b ()>,
}

#[derive(SystemData)]
pub struct S05<'a, T: Default + Send + Sync + 'static> {
    a: Write<'a, T>,
    b: Option<Write<'a, ResB>>,
}

#[derive(SystemData)]
pub struct S06<'a, T>
where
    T: SystemData<'a>,
{
    a: Read<'a, ResA>,
    inner: T,
}

#[derive(SystemData)]
pub struct S07<'a> {
    nested: (Read<'a, ResA>, Write<'a, ResB>),
    opt: Option<Write<'a, ResC>>,
    unit: (),
}

#[derive(SystemData)]
pub struct S08<'a> {
    f1: Read<'a, ResA>,
    f2: Write<'a, ResB>,
    f3: Option<Read<'a, ResC>>,
    f4: Option<Write<'a, ResD>>,
    f5: ReadExpect<'a, ResA>,
    f6: WriteExpect<'a, ResD>,
    f7: PhantomData<u8>,
    f8: (),
}

#[derive(SystemData)]
pub struct S09<'a, T, U>(T, U, Read<'a, ResA>)
where
    T: SystemData<'a>,
    U: SystemData<'a>;

#[derive(SystemData)]
pub struct S10<'a> {
    inner: S02<'a>,
    other: S03<'a>,
}

#[derive(SystemData)]
pub struct S11<'a, 'b, T: SystemData<'a>> {
    deep: ((T, Read<'a, ResA>), (Write<'a, ResB>,)),
    marker: PhantomData<&'b T>,
}

#[derive(SystemData)]
pub struct S12<'a>(WriteExpect<'a, ResA>);

fn main() {
    let _ = (ResourceId::new::<ResA>(), World::empty());
}
