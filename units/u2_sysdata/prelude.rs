// ======== U2 prelude: World and its guards as proved in unit U3, seen through their contracts
use std::any::TypeId;
use std::marker::PhantomData;
use vstd::multiset::*;

//@if P
#[verifier::external_body] pub fn vx_panic() -> ! { panic!() }
#[verifier::external_body] pub fn vx_unwrap<T>(o: Option<T>) -> (r: T) ensures o == Some(r) { o.unwrap() }
//@endif
//@if T
#[verifier::external_body] pub fn vx_panic() -> ! requires false { panic!() }
pub fn vx_unwrap<T>(o: Option<T>) -> (r: T) requires o is Some ensures o == Some(r) { o.unwrap() }
//@endif

#[verifier::external_type_specification]
#[verifier::external_body]
pub struct ExTypeId(TypeId);
pub uninterp spec fn type_of<T>() -> TypeId;
#[verifier::external_body]
pub fn vx_type_of<T: 'static>() -> (r: TypeId) ensures r == type_of::<T>() { TypeId::of::<T>() }
pub trait Resource: 'static {}
impl<T: 'static> Resource for T {}

// ---- World (unit U3): which ids are present, the identity of each id's cell, and the log of setup-handler calls
#[verifier::external_body]
pub struct World { _p: u8 }
impl World {
    pub uninterp spec fn present(&self, id: ResourceId) -> bool;
    pub uninterp spec fn cell_of(&self, id: ResourceId) -> int;
    pub uninterp spec fn setup_log(&self) -> Seq<int>;
    #[verifier::external_body]
    pub fn has_value_raw(&self, id: ResourceId) -> (r: bool) ensures r == self.present(id) { unimplemented!() }
    // contracts proved in U3 (World::fetch / fetch_mut / try_fetch / try_fetch_mut, mode P: a refused borrow does not return)
    #[verifier::external_body]
    pub fn fetch<T: Resource>(&self) -> (r: Fetch<'_, T>) ensures self.present(rid::<T>()), r.cell() == self.cell_of(rid::<T>()) { unimplemented!() }
    #[verifier::external_body]
    pub fn fetch_mut<T: Resource>(&self) -> (r: FetchMut<'_, T>) ensures self.present(rid::<T>()), r.cell() == self.cell_of(rid::<T>()) { unimplemented!() }
    #[verifier::external_body]
    pub fn try_fetch<T: Resource>(&self) -> (r: Option<Fetch<'_, T>>)
        ensures r is None <==> !self.present(rid::<T>()), r is Some ==> r->0.cell() == self.cell_of(rid::<T>()) { unimplemented!() }
    #[verifier::external_body]
    pub fn try_fetch_mut<T: Resource>(&self) -> (r: Option<FetchMut<'_, T>>)
        ensures r is None <==> !self.present(rid::<T>()), r is Some ==> r->0.cell() == self.cell_of(rid::<T>()) { unimplemented!() }
}
#[verifier::external_body] #[verifier::reject_recursive_types(T)]
pub struct Fetch<'a, T: 'a> { _p: PhantomData<&'a T> }
impl<'a, T> Fetch<'a, T> { pub uninterp spec fn cell(&self) -> int; }     // the cell whose *shared* borrow the guard owns
#[verifier::external_body] #[verifier::reject_recursive_types(T)]
pub struct FetchMut<'a, T: 'a> { _p: PhantomData<&'a mut T> }
impl<'a, T> FetchMut<'a, T> { pub uninterp spec fn cell(&self) -> int; }  // the cell whose *exclusive* borrow the guard owns

// ---- setup handlers (user-implementable; DefaultProvider / PanicHandler are verified in U3): one call, one log entry
pub uninterp spec fn handler_call<F, T>() -> int;
pub trait SetupHandler<T>: Sized {
    fn setup(world: &mut World)
        ensures final(world).setup_log() == old(world).setup_log().push(handler_call::<Self, T>());
}
pub struct DefaultProvider;
pub struct PanicHandler;
impl<T: Default + Resource> SetupHandler<T> for DefaultProvider { #[verifier::external_body] fn setup(world: &mut World) { unimplemented!() } }
impl<T: Resource> SetupHandler<T> for PanicHandler { #[verifier::external_body] fn setup(world: &mut World) { unimplemented!() } }

// ---- what a fetched system-data value holds: a multiset of guards (cell, exclusive?)
pub struct Guard { pub cell: int, pub excl: bool }
pub open spec fn rid<T>() -> ResourceId { ResourceId { type_id: type_of::<T>(), dynamic_id: 0 } }
// the guards C06 requires for a declared id list: one per id that exists in the world
pub open spec fn guards_of(ids: Seq<ResourceId>, excl: bool, w: &World) -> Multiset<Guard>
    decreases ids.len()
{
    if ids.len() == 0 { Multiset::empty() } else {
        let rest = guards_of(ids.drop_last(), excl, w);
        if w.present(ids.last()) { rest.insert(Guard { cell: w.cell_of(ids.last()), excl }) } else { rest }
    }
}
pub proof fn lemma_guards_concat(a: Seq<ResourceId>, b: Seq<ResourceId>, excl: bool, w: &World)
    ensures guards_of(a + b, excl, w) =~= guards_of(a, excl, w).add(guards_of(b, excl, w))
    decreases b.len()
{
    if b.len() == 0 { assert(a + b =~= a); } else {
        assert((a + b).drop_last() =~= a + b.drop_last());
        assert((a + b).last() == b.last());
        lemma_guards_concat(a, b.drop_last(), excl, w);
    }
}
pub proof fn lemma_guards_one(id: ResourceId, excl: bool, w: &World)
    ensures guards_of(seq![id], excl, w) =~= (if w.present(id) { Multiset::singleton(Guard { cell: w.cell_of(id), excl }) } else { Multiset::empty() }),
        guards_of(Seq::<ResourceId>::empty(), excl, w) =~= Multiset::empty()
{
    reveal_with_fuel(guards_of, 3);
    assert(seq![id].drop_last() =~= Seq::<ResourceId>::empty());
    assert(seq![id].last() == id);
    assert(guards_of(seq![id].drop_last(), excl, w) =~= Multiset::empty());
}
pub open spec fn expected_guards(rs: Seq<ResourceId>, ws: Seq<ResourceId>, w: &World) -> Multiset<Guard> {
    guards_of(rs, false, w).add(guards_of(ws, true, w))
}
// vec![x] / vec![]
pub fn vx_vec1<T>(x: T) -> (v: Vec<T>) ensures v@ == seq![x] { let mut v = Vec::new(); v.push(x); v }

impl Clone for ResourceId {
    #[verifier::external_body] fn clone(&self) -> (r: Self) ensures r == *self { unimplemented!() }
}
