// ======== U1 prelude, part b: the opaque things around the dispatcher (World, boxed systems, traits, pool)

// identity of a registered system as the dispatcher sees it: what it declared and which hook calls it stands for
pub ghost struct Ident {
    pub gid: int,
    pub reads: Seq<ResourceId>,
    pub writes: Seq<ResourceId>,
    pub setup: Seq<int>,      // what one call of its `setup` appends to the world's setup log
    pub dispose: Seq<int>,    // what its `dispose` appends to the world's dispose log
}

// ---- World: opaque here (U3 verifies it); ghost logs record which setup / dispose hooks reached it, in order
#[verifier::external_body]
pub struct World { _p: u8 }
impl World {
    pub uninterp spec fn setup_log(&self) -> Seq<int>;
    pub uninterp spec fn dispose_log(&self) -> Seq<int>;
    // World::setup::<T>() is `T::setup(self)` (src/world/mod.rs); contract of SystemData::setup
    #[verifier::external_body]
    pub fn setup<T: SystemData>(&mut self)
        ensures final(self).setup_log() == old(self).setup_log() + T::spec_setup_trace(), final(self).dispose_log() == old(self).dispose_log()
    { unimplemented!() }
    #[verifier::external_body]
    pub fn system_data<T: SystemData>(&self) -> (r: T) { unimplemented!() }
}

// ---- the SystemData / Accessor / System tower as the dispatcher uses it (U2 verifies the provided impls)
pub trait SystemData: Sized {
    spec fn spec_reads() -> Seq<ResourceId>;
    spec fn spec_writes() -> Seq<ResourceId>;
    spec fn spec_setup_trace() -> Seq<int>;
    fn reads() -> (r: Vec<ResourceId>) ensures r@ == Self::spec_reads();
    fn writes() -> (r: Vec<ResourceId>) ensures r@ == Self::spec_writes();
}
pub trait Accessor: Sized {
    spec fn spec_r(&self) -> Seq<ResourceId>;
    spec fn spec_w(&self) -> Seq<ResourceId>;
    fn try_new() -> (r: Option<Self>);
    fn reads(&self) -> (r: Vec<ResourceId>) ensures r@ == self.spec_r();
    fn writes(&self) -> (r: Vec<ResourceId>) ensures r@ == self.spec_w();
}
pub trait DynamicSystemData: Sized {
    type Accessor: Accessor;
    spec fn spec_dyn_setup_trace(accessor: &Self::Accessor) -> Seq<int>;
    fn setup(accessor: &Self::Accessor, world: &mut World)
//@if hooks
        ensures final(world).setup_log() == old(world).setup_log() + Self::spec_dyn_setup_trace(accessor), final(world).dispose_log() == old(world).dispose_log()
//@endif
    ;
    fn fetch(access: &Self::Accessor, world: &World) -> (r: Self);
}
pub enum AccessorCow<'b, A> { Ref(&'b A), Owned(A) }
impl<'b, A: Accessor> AccessorCow<'b, A> {
    pub open spec fn spec_r(&self) -> Seq<ResourceId> { match self { AccessorCow::Ref(r) => r.spec_r(), AccessorCow::Owned(o) => o.spec_r() } }
    pub open spec fn spec_w(&self) -> Seq<ResourceId> { match self { AccessorCow::Ref(r) => r.spec_w(), AccessorCow::Owned(o) => o.spec_w() } }
    // `impl Deref for AccessorCow` followed by the accessor's method (auto-deref)
    pub fn reads(&self) -> (v: Vec<ResourceId>) ensures v@ == self.spec_r() { match self { AccessorCow::Ref(r) => r.reads(), AccessorCow::Owned(o) => o.reads() } }
    pub fn writes(&self) -> (v: Vec<ResourceId>) ensures v@ == self.spec_w() { match self { AccessorCow::Ref(r) => r.writes(), AccessorCow::Owned(o) => o.writes() } }
    // deref coercion `&AccessorCow -> &Accessor` (the real Deref impl is verified in unit U2)
    pub fn vx_deref(&self) -> (a: &A) ensures a.spec_r() == self.spec_r(), a.spec_w() == self.spec_w() { match self { AccessorCow::Ref(r) => r, AccessorCow::Owned(o) => o } }
}
// A System reports its access through its accessor and a time hint; both assumed *stable* (same answer on every call).
pub trait System: Sized {
    type SystemData: DynamicSystemData;
    spec fn spec_ident(&self) -> Ident;
    spec fn spec_time(&self) -> RunningTime;
    // `self` is `pre` after exactly k calls of `run` (an abstract relation: a stateless system may define it as `true`)
    spec fn spec_ran(&self, pre: &Self, k: nat) -> bool;
    fn run(&mut self, data: Self::SystemData)
        ensures final(self).spec_time() == old(self).spec_time(),
//@if once|tl|tree
            final(self).spec_ran(old(self), 1),
//@endif
//@if hooks|tree
            final(self).spec_ident() == old(self).spec_ident(),
//@endif
    ;
    fn running_time(&self) -> (r: RunningTime) ensures r == self.spec_time();
    fn accessor(&self) -> (r: AccessorCow<'_, <Self::SystemData as DynamicSystemData>::Accessor>)
        ensures r.spec_r() == self.spec_ident().reads, r.spec_w() == self.spec_ident().writes;
    fn setup(&mut self, world: &mut World)
//@if hooks|tree
        ensures final(world).setup_log() == old(world).setup_log() + old(self).spec_ident().setup, final(world).dispose_log() == old(world).dispose_log(),
            final(self).spec_ident() == old(self).spec_ident()
//@endif
    ;
    fn dispose(self, world: &mut World)
//@if hooks|tree
        ensures final(world).dispose_log() == old(world).dispose_log() + self.spec_ident().dispose, final(world).setup_log() == old(world).setup_log()
//@endif
    ;
}
// RunNow: what a boxed system offers to the dispatcher.  How often an implementor "ran" is stated by each impl
// (a strengthened postcondition); the trait-level contract fixes identity and the hook logs.
pub trait RunNow: Sized {
    spec fn rn_ident(&self) -> Ident;
    fn run_now(&mut self, world: &World)
//@if hooks
        ensures final(self).rn_ident() == old(self).rn_ident()
//@endif
    ;
    fn setup(&mut self, world: &mut World)
//@if hooks
        ensures final(world).setup_log() == old(world).setup_log() + old(self).rn_ident().setup, final(world).dispose_log() == old(world).dispose_log(),
            final(self).rn_ident() == old(self).rn_ident()
//@endif
    ;
    fn dispose(self, world: &mut World)
//@if hooks
        ensures final(world).dispose_log() == old(world).dispose_log() + self.rn_ident().dispose, final(world).setup_log() == old(world).setup_log()
//@endif
    ;
}

// ---- boxed systems: `Box<dyn for<'a> RunNow<'a> (+ Send)>` is opaque; its methods carry the RunNow contract
#[verifier::external_body]
pub struct SysBox { _p: u8 }
impl SysBox {
    pub uninterp spec fn ident(&self) -> Ident;
    pub uninterp spec fn runs(&self) -> nat;
    pub open spec fn decl_reads(&self) -> Seq<ResourceId> { self.ident().reads }
    pub open spec fn decl_writes(&self) -> Seq<ResourceId> { self.ident().writes }
    #[verifier::external_body]
    pub fn run_now(&mut self, world: &World)
        ensures final(self).runs() == old(self).runs() + 1, final(self).ident() == old(self).ident()
    { unimplemented!() }
    #[verifier::external_body]
    pub fn setup(&mut self, world: &mut World)
        ensures final(world).setup_log() == old(world).setup_log() + old(self).ident().setup, final(world).dispose_log() == old(world).dispose_log(),
            final(self).ident() == old(self).ident(), final(self).runs() == old(self).runs()
    { unimplemented!() }
    #[verifier::external_body]
    pub fn dispose(self, world: &mut World)
        ensures final(world).dispose_log() == old(world).dispose_log() + self.ident().dispose, final(world).setup_log() == old(world).setup_log()
    { unimplemented!() }
}
// Box::new(system) coerced to the trait object
#[verifier::external_body]
pub fn vx_boxed_sys<T: System>(system: T) -> (b: SysBox)
    ensures b.ident() == system.spec_ident()
{ unimplemented!() }
#[verifier::external_body]
pub fn vx_boxed_rn<T: RunNow>(system: T) -> (b: SysBox)
    ensures b.ident() == system.rn_ident()
{ unimplemented!() }

// ---- containers: element access for the lowered `for` loops (rules R14-R16)
pub trait VxAt<T>: Sized {
    spec fn vxq(&self) -> Seq<T>;
    fn vx_at(&self, k: usize) -> (r: &T) requires k < self.vxq().len() ensures *r == self.vxq()[k as int];
    fn vx_at_mut(&mut self, k: usize) -> (r: &mut T) requires k < old(self).vxq().len()
        ensures *r == old(self).vxq()[k as int], final(self).vxq() == old(self).vxq().update(k as int, *final(r));
    fn vx_pop_front(&mut self) -> (r: T) requires old(self).vxq().len() > 0
        ensures r == old(self).vxq()[0], final(self).vxq() == old(self).vxq().subrange(1, old(self).vxq().len() as int);
}
impl<T> VxAt<T> for Vec<T> {
    open spec fn vxq(&self) -> Seq<T> { self@ }
    fn vx_at(&self, k: usize) -> (r: &T) { &self[k] }
    fn vx_at_mut(&mut self, k: usize) -> (r: &mut T) { &mut self[k] }
    fn vx_pop_front(&mut self) -> (r: T) { self.remove(0) }
}
impl<T, const N: usize> VxAt<T> for ArrayVec<T, N> {
    open spec fn vxq(&self) -> Seq<T> { self@ }
    fn vx_at(&self, k: usize) -> (r: &T) { &self.v[k] }
    fn vx_at_mut(&mut self, k: usize) -> (r: &mut T) { &mut self.v[k] }
    fn vx_pop_front(&mut self) -> (r: T) { self.v.remove(0) }
}

// ---- the shared pool slot Arc<RwLock<Option<Arc<ThreadPool>>>> and rayon
#[verifier::external_body] pub struct PoolHandle { _p: u8 }
#[verifier::external_body] pub struct PoolLockResult<'a> { _p: &'a u8 }
#[verifier::external_body] pub struct PoolGuard<'a> { _p: &'a u8 }
#[verifier::external_body] pub struct Pool { _p: u8 }
impl PoolHandle {
    #[verifier::external_body] pub fn read(&self) -> (r: PoolLockResult<'_>) { unimplemented!() }
    #[verifier::external_body] pub fn clone(&self) -> (r: PoolHandle) { unimplemented!() }
}
impl<'a> PoolLockResult<'a> {
    // RwLock poisoning is an environment assumption (listed)
    #[verifier::external_body] pub fn unwrap(self) -> (r: PoolGuard<'a>) { unimplemented!() }
}
impl<'a> PoolGuard<'a> {
    // assumed: once `build` has filled the slot it stays `Some` (no code path stores `None`)
    #[verifier::external_body] pub fn as_ref(&self) -> (r: Option<&Pool>) ensures r is Some { unimplemented!() }
}
// rayon::ThreadPool::install(f): runs f once inside the pool and returns when it returned (trusted; rule R11)
pub fn vx_pool_install(pool: &Pool) { }
