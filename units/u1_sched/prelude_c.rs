// ======== U1 prelude, part c: names, panics on Option, batch controller traits

// ---- AHashMap<String, SystemId>: the name -> id map, seen as Map<Seq<char>, SystemId>
#[verifier::external_body]
pub struct NameMap { m: std::collections::HashMap<String, SystemId> }
impl View for NameMap { type V = Map<Seq<char>, SystemId>; uninterp spec fn view(&self) -> Map<Seq<char>, SystemId>; }
impl NameMap {
    #[verifier::external_body]
    pub fn get(&self, k: &str) -> (r: Option<&SystemId>)
        ensures match r { Some(v) => self@.contains_key(k@) && *v == self@[k@], None => !self@.contains_key(k@) }
    { self.m.get(k) }
    #[verifier::external_body]
    pub fn contains_key(&self, k: &str) -> (r: bool) ensures r == self@.contains_key(k@) { self.m.contains_key(k) }
    #[verifier::external_body]
    pub fn is_empty(&self) -> (r: bool) ensures r == (self@.len() == 0) { self.m.is_empty() }
    #[verifier::external_body]
    pub fn len(&self) -> (r: usize) ensures r == self@.len() { self.m.len() }
    // rule R13: `if let Entry::Vacant(e) = map.entry(k) { e.insert(v) } else { .. }`
    #[verifier::external_body]
    pub fn vx_vacant(&self, k: &String) -> (r: bool) ensures r == !self@.contains_key(k@) { !self.m.contains_key(k) }
    #[verifier::external_body]
    pub fn vx_insert_vacant(&mut self, k: String, v: SystemId)
        requires !old(self)@.contains_key(k@)
        ensures final(self)@ == old(self)@.insert(k@, v)
    { self.m.insert(k, v); }
}
pub trait VxStr { spec fn vxstr(&self) -> Seq<char>; fn vx_to_owned(&self) -> (r: String) ensures r@ == self.vxstr(); }
impl VxStr for str {
    open spec fn vxstr(&self) -> Seq<char> { self@ }
    #[verifier::external_body] fn vx_to_owned(&self) -> (r: String) { self.to_owned() }
}
// ---- rule R8: `.unwrap_or_else(|| panic!(..))` / `.expect(..)`
//@if T
pub fn vx_unwrap<T>(o: Option<T>) -> (r: T) requires o is Some ensures o == Some(r) { o.unwrap() }
//@endif
//@if P
#[verifier::external_body]
pub fn vx_unwrap<T>(o: Option<T>) -> (r: T) ensures o == Some(r) { o.unwrap() }
//@endif
pub fn vx_collect_new<T>() -> (r: Vec<T>) ensures r@.len() == 0 { Vec::new() }

// ---- `&'c World` stored in a struct (BatchUncheckedWorld): a copyable handle
#[verifier::external_body]
pub struct WorldRef { _p: u8 }
#[verifier::external_body] pub fn vx_world_ref(world: &World) -> (r: WorldRef) { unimplemented!() }
impl WorldRef { #[verifier::external_body] pub fn vx_world(&self) -> (r: &World) { unimplemented!() } }

// ---- user-implemented controller traits (user code: arbitrary but honest; see DESIGN.md section 7)
pub trait BatchController: Sized {
    type BatchSystemData: SystemData;
    spec fn ctl_time(&self) -> RunningTime;
    spec fn ctl_ran(&self, pre: &Self, k: nat) -> bool;
    spec fn ctl_gid(&self) -> int;
    // assumed of every controller: it only dispatches the inner dispatcher (identities of the systems inside are kept)
    fn run(&mut self, world: &World, dispatcher: &mut Dispatcher)
        ensures final(self).ctl_gid() == old(self).ctl_gid(), final(self).ctl_time() == old(self).ctl_time(),
//@if once|tl
            final(self).ctl_ran(old(self), 1),
//@endif
//@if hooks
            final(dispatcher).same(old(dispatcher)),
//@endif
    ;
    fn running_time(&self) -> (r: RunningTime) ensures r == self.ctl_time();
}
pub trait MultiDispatchController: Sized {
    type SystemData: SystemData;
    spec fn mdc_ran(&self, pre: &Self, k: nat) -> bool;
    spec fn mdc_gid(&self) -> int;
    spec fn mdc_plan(&self, data: Self::SystemData) -> usize;
    fn plan(&mut self, data: Self::SystemData) -> (n: usize)
        ensures n == old(self).mdc_plan(data), final(self).mdc_ran(old(self), 1), final(self).mdc_gid() == old(self).mdc_gid();
}

// thread_pool.write().unwrap().get_or_insert_with(Self::create_thread_pool): fills the shared slot (environment; listed)
pub fn vx_pool_fill(pool: &PoolHandle) { }
