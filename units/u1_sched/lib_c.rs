// ======== builder-level vocabulary (C02, C07, C13, C18)
pub open spec fn batch_mark(idn: Ident) -> bool { true }
impl DispatcherBuilder {
    // every name in the map refers to a system that sits in the tables (C02: dependencies can always be located)
    pub open spec fn names_located(&self) -> bool {
        forall|n: Seq<char>| self.map@.contains_key(n) ==> self.stages_builder.located_in(#[trigger] self.map@[n], 0, self.stages_builder.nstages())
    }
    // ids come from the counter: every id in the tables is below it, hence each id occurs once (C04)
    pub open spec fn ids_below(&self) -> bool {
        forall|s: int, g: int, p: int| 0 <= s < self.stages_builder.ids@.len() && 0 <= g < self.stages_builder.ids@[s]@.len() && 0 <= p < self.stages_builder.ids@[s]@[g]@.len()
            ==> (#[trigger] self.stages_builder.ids@[s]@[g]@[p]).0 < self.current_id
    }
    pub open spec fn dep_ids(&self, dep: Seq<&str>) -> Seq<SystemId> { Seq::new(dep.len(), |i: int| self.map@[dep[i]@]) }
    // one registration step: a system with identity `idn` and time hint t is placed under a fresh id
    pub open spec fn added(&self, post: &DispatcherBuilder, idn: Ident, t: int, name: Seq<char>) -> bool {
        &&& post.current_id == self.current_id + 1
        &&& post.map@ == (if name.len() == 0 { self.map@ } else { self.map@.insert(name, SystemId(self.current_id)) })
        &&& post.thread_local == self.thread_local
        &&& exists|s: int, g: int, rs: Seq<ResourceId>| #[trigger] at_slot(s, g, rs) && same_set(rs, idn.reads)
              && self.stages_builder.placed(&post.stages_builder, s, g, SystemId(self.current_id), rs, idn.writes, t)
              && self.stages_builder.placed_box(&post.stages_builder, s, g, idn)
    }
    pub open spec fn added_dep(&self, post: &DispatcherBuilder, idn: Ident, t: int, deps: Seq<SystemId>) -> bool {
        exists|s: int, g: int, rs: Seq<ResourceId>| #[trigger] at_slot(s, g, rs)
              && self.stages_builder.placed(&post.stages_builder, s, g, SystemId(self.current_id), rs, idn.writes, t)
              && self.stages_builder.placed_dep(s, g, deps)
    }
    pub open spec fn added_bar(&self, post: &DispatcherBuilder, idn: Ident, t: int) -> bool {
        exists|s: int, g: int, rs: Seq<ResourceId>| #[trigger] at_slot(s, g, rs)
              && self.stages_builder.placed(&post.stages_builder, s, g, SystemId(self.current_id), rs, idn.writes, t)
              && self.stages_builder.barrier <= s
    }
    pub open spec fn added_fit(&self, post: &DispatcherBuilder, idn: Ident, t: int, deps: Seq<SystemId>) -> bool {
        exists|s: int, g: int, rs: Seq<ResourceId>| #[trigger] at_slot(s, g, rs) && same_set(rs, idn.reads)
              && self.stages_builder.placed(&post.stages_builder, s, g, SystemId(self.current_id), rs, idn.writes, t)
              && self.stages_builder.placed_fit(s, rs, idn.writes, deps)
    }
    // C07: the identity under which a batch is scheduled
    pub open spec fn batch_sup(&self, idn: Ident, dr: Seq<ResourceId>, dw: Seq<ResourceId>) -> bool {
        &&& forall|x: ResourceId| table_has(self.stages_builder.reads@, x) || dr.contains(x) ==> idn.reads.contains(x)
        &&& forall|x: ResourceId| table_has(self.stages_builder.writes@, x) || dw.contains(x) ==> idn.writes.contains(x)
    }
    pub open spec fn batch_sub(&self, idn: Ident, dr: Seq<ResourceId>, dw: Seq<ResourceId>) -> bool {
        &&& forall|x: ResourceId| idn.reads.contains(x) ==> table_has(self.stages_builder.reads@, x) || dr.contains(x)
        &&& forall|x: ResourceId| idn.writes.contains(x) ==> table_has(self.stages_builder.writes@, x) || dw.contains(x)
    }
    // C13: the hooks of a batch are its controller data's setup followed by everything inside the inner builder
    pub open spec fn batch_hooks(&self, idn: Ident, data_setup: Seq<int>) -> bool {
        &&& idn.setup == data_setup + (stages_setup_trace(self.stages_builder.stages@) + setup_trace_of(self.thread_local@))
        &&& idn.dispose == stages_dispose_trace(self.stages_builder.stages@) + dispose_trace_of(self.thread_local@)
    }
}
impl StagesBuilder {
    // an id in the tables before an insert is at the same place afterwards (positions never move: C02, C03 stay true)
    pub proof fn lemma_placed_located(&self, post: &StagesBuilder, s: int, g: int, id: SystemId, rs: Seq<ResourceId>, ws: Seq<ResourceId>, t: int, d: SystemId, lo: int, hi: int)
        requires self.lockstep(), self.placed(post, s, g, id, rs, ws, t), self.located_in(d, lo, hi)
        ensures post.located_in(d, lo, hi)
    {
        let u = choose|u: int| lo <= u < hi && 0 <= u < self.ids@.len() && #[trigger] in_stage(self.ids@, u, d);
        let (h, p) = choose|h: int, p: int| 0 <= h < self.ids@[u]@.len() && 0 <= p < self.ids@[u]@[h]@.len() && #[trigger] self.ids@[u]@[h]@[p] == d;
        if u != s {
            assert(post.ids@[u] == self.ids@[u]);
            assert(post.ids@[u]@[h]@[p] == d);
        } else if h != g {
            assert(post.ids@[s]@[h] == self.ids@[s]@[h]);
            assert(post.ids@[u]@[h]@[p] == d);
        } else {
            assert(post.ids@[s]@[g]@ == self.ids@[s]@[g]@.push(id));
            assert(post.ids@[u]@[h]@[p] == d);
        }
        assert(in_stage(post.ids@, u, d));
    }
    pub proof fn lemma_placed_new_located(&self, post: &StagesBuilder, s: int, g: int, id: SystemId, rs: Seq<ResourceId>, ws: Seq<ResourceId>, t: int)
        requires self.lockstep(), self.placed(post, s, g, id, rs, ws, t)
        ensures post.located_in(id, 0, post.nstages())
    {
        let p = self.slot_ids(s, g).len() as int;
        assert(post.ids@[s]@[g]@[p] == id);
        assert(in_stage(post.ids@, s, id));
    }
    // every id in the tables after an insert was there before or is the new one
    pub proof fn lemma_placed_ids(&self, post: &StagesBuilder, s: int, g: int, id: SystemId, rs: Seq<ResourceId>, ws: Seq<ResourceId>, t: int, u: int, h: int, p: int)
        requires self.lockstep(), self.placed(post, s, g, id, rs, ws, t),
            0 <= u < post.ids@.len(), 0 <= h < post.ids@[u]@.len(), 0 <= p < post.ids@[u]@[h]@.len()
        ensures post.ids@[u]@[h]@[p] == id || (0 <= u < self.ids@.len() && 0 <= h < self.ids@[u]@.len() && 0 <= p < self.ids@[u]@[h]@.len() && self.ids@[u]@[h]@[p] == post.ids@[u]@[h]@[p])
    {
        if u != s {
            assert(post.ids@[u] == self.ids@[u]);
        } else if h != g {
            assert(post.ids@[s]@[h] == self.ids@[s]@[h]);
        } else {
            assert(post.ids@[s]@[g]@ == self.slot_ids(s, g).push(id));
        }
    }
}
