// ======== builder-level vocabulary (C02, C07, C13, C18)
pub open spec fn batch_mark(idn: Ident) -> bool { true }
impl DispatcherBuilder {
    // every name in the map refers to a system that sits in the tables (C02: dependencies can always be located)
    pub open spec fn names_located(&self) -> bool {
        forall|n: Seq<char>| self.map@.contains_key(n) ==> self.stages_builder.located_in(#[trigger] self.map@[n], 0, self.stages_builder.nstages())
    }
    // ids come from the counter: every id in the tables is below it, hence each id occurs once (C04)
    pub open spec fn ids_below(&self) -> bool {
        forall|s: int, g: int, p: int| 0 <= s < self.stages_builder.ids@.len() && 0 <= g < self.stages_builder.ids@[s]@.len() && 0 <= p < self.stages_builder.ids@[s]@[g]@.len()
            ==> (#[trigger] self.stages_builder.ids@[s]@[g]@[p]).0 < self.current_id
    }
    pub open spec fn dep_ids(&self, dep: Seq<&str>) -> Seq<SystemId> { Seq::new(dep.len(), |i: int| self.map@[dep[i]@]) }
    // one registration step: a system with identity `idn` and time hint t is placed under a fresh id
    pub open spec fn added(&self, post: &DispatcherBuilder, idn: Ident, t: int, name: Seq<char>) -> bool {
        &&& post.current_id == self.current_id + 1
        &&& post.map@ == (if name.len() == 0 { self.map@ } else { self.map@.insert(name, SystemId(self.current_id)) })
        &&& post.thread_local == self.thread_local
        &&& exists|s: int, g: int, rs: Seq<ResourceId>| #[trigger] at_slot(s, g, rs) && same_set(rs, idn.reads)
              && self.stages_builder.placed(&post.stages_builder, s, g, SystemId(self.current_id), rs, idn.writes, t)
              && self.stages_builder.placed_box(&post.stages_builder, s, g, idn)
    }
    pub open spec fn added_dep(&self, post: &DispatcherBuilder, idn: Ident, t: int, deps: Seq<SystemId>) -> bool {
        exists|s: int, g: int, rs: Seq<ResourceId>| #[trigger] at_slot(s, g, rs)
              && self.stages_builder.placed(&post.stages_builder, s, g, SystemId(self.current_id), rs, idn.writes, t)
              && self.stages_builder.placed_dep(s, g, deps)
    }
    pub open spec fn added_bar(&self, post: &DispatcherBuilder, idn: Ident, t: int) -> bool {
        exists|s: int, g: int, rs: Seq<ResourceId>| #[trigger] at_slot(s, g, rs)
              && self.stages_builder.placed(&post.stages_builder, s, g, SystemId(self.current_id), rs, idn.writes, t)
              && self.stages_builder.barrier <= s
    }
    pub open spec fn added_fit(&self, post: &DispatcherBuilder, idn: Ident, t: int, deps: Seq<SystemId>) -> bool {
        exists|s: int, g: int, rs: Seq<ResourceId>| #[trigger] at_slot(s, g, rs) && same_set(rs, idn.reads)
              && self.stages_builder.placed(&post.stages_builder, s, g, SystemId(self.current_id), rs, idn.writes, t)
              && self.stages_builder.placed_fit(s, rs, idn.writes, deps)
    }
    // C07: the identity under which a batch is scheduled
    pub open spec fn batch_sup(&self, idn: Ident, dr: Seq<ResourceId>, dw: Seq<ResourceId>) -> bool {
        &&& forall|x: ResourceId| table_has(self.stages_builder.reads@, x) || dr.contains(x) ==> idn.reads.contains(x)
        &&& forall|x: ResourceId| table_has(self.stages_builder.writes@, x) || dw.contains(x) ==> idn.writes.contains(x)
    }
    pub open spec fn batch_sub(&self, idn: Ident, dr: Seq<ResourceId>, dw: Seq<ResourceId>) -> bool {
        &&& forall|x: ResourceId| idn.reads.contains(x) ==> table_has(self.stages_builder.reads@, x) || dr.contains(x)
        &&& forall|x: ResourceId| idn.writes.contains(x) ==> table_has(self.stages_builder.writes@, x) || dw.contains(x)
    }
    // C13: the hooks of a batch are its controller data's setup followed by everything inside the inner builder
    pub open spec fn batch_hooks(&self, idn: Ident, data_setup: Seq<int>) -> bool {
        &&& idn.setup == data_setup + (stages_setup_trace(self.stages_builder.stages@) + setup_trace_of(self.thread_local@))
        &&& idn.dispose == stages_dispose_trace(self.stages_builder.stages@) + dispose_trace_of(self.thread_local@)
    }
}
impl StagesBuilder {
    // an id in the tables before an insert is at the same place afterwards (positions never move: C02, C03 stay true)
    pub proof fn lemma_placed_located(&self, post: &StagesBuilder, s: int, g: int, id: SystemId, rs: Seq<ResourceId>, ws: Seq<ResourceId>, t: int, d: SystemId, lo: int, hi: int)
        requires self.lockstep(), self.placed(post, s, g, id, rs, ws, t), self.located_in(d, lo, hi)
        ensures post.located_in(d, lo, hi)
    {
        let u = choose|u: int| lo <= u < hi && 0 <= u < self.ids@.len() && #[trigger] in_stage(self.ids@, u, d);
        let (h, p) = choose|h: int, p: int| 0 <= h < self.ids@[u]@.len() && 0 <= p < self.ids@[u]@[h]@.len() && #[trigger] self.ids@[u]@[h]@[p] == d;
        if u != s {
            assert(post.ids@[u] == self.ids@[u]);
            assert(post.ids@[u]@[h]@[p] == d);
        } else if h != g {
            assert(post.ids@[s]@[h] == self.ids@[s]@[h]);
            assert(post.ids@[u]@[h]@[p] == d);
        } else {
            assert(post.ids@[s]@[g]@ == self.ids@[s]@[g]@.push(id));
            assert(post.ids@[u]@[h]@[p] == d);
        }
        assert(in_stage(post.ids@, u, d));
    }
    pub proof fn lemma_placed_new_located(&self, post: &StagesBuilder, s: int, g: int, id: SystemId, rs: Seq<ResourceId>, ws: Seq<ResourceId>, t: int)
        requires self.lockstep(), self.placed(post, s, g, id, rs, ws, t)
        ensures post.located_in(id, 0, post.nstages())
    {
        let p = self.slot_ids(s, g).len() as int;
        assert(post.ids@[s]@[g]@[p] == id);
        assert(in_stage(post.ids@, s, id));
    }
    // every id in the tables after an insert was there before or is the new one
    pub proof fn lemma_placed_ids(&self, post: &StagesBuilder, s: int, g: int, id: SystemId, rs: Seq<ResourceId>, ws: Seq<ResourceId>, t: int, u: int, h: int, p: int)
        requires self.lockstep(), self.placed(post, s, g, id, rs, ws, t),
            0 <= u < post.ids@.len(), 0 <= h < post.ids@[u]@.len(), 0 <= p < post.ids@[u]@[h]@.len()
        ensures post.ids@[u]@[h]@[p] == id || (0 <= u < self.ids@.len() && 0 <= h < self.ids@[u]@.len() && 0 <= p < self.ids@[u]@[h]@.len() && self.ids@[u]@[h]@[p] == post.ids@[u]@[h]@[p])
    {
        if u != s {
            assert(post.ids@[u] == self.ids@[u]);
        } else if h != g {
            assert(post.ids@[s]@[h] == self.ids@[s]@[h]);
        } else {
            assert(post.ids@[s]@[g]@ == self.slot_ids(s, g).push(id));
        }
    }
}
// ======== C20: what the plan printer must emit for an id table
pub open spec fn tok0(s: &str) -> Tok { Tok { fmt: s@, arg: None } }
pub open spec fn label_of(id: SystemId, inv: Map<SystemId, Seq<char>>) -> Seq<char> {
    spec_sanitise(if inv.contains_key(id) { inv[id] } else { spec_placeholder(id.0) })
}
pub open spec fn sys_tok(id: SystemId, inv: Map<SystemId, Seq<char>>) -> Tok { Tok { fmt: "\t\t\t{},"@, arg: Some(label_of(id, inv)) } }
pub open spec fn group_toks(g: Seq<SystemId>, inv: Map<SystemId, Seq<char>>) -> Seq<Tok> decreases g.len() {
    if g.len() == 0 { Seq::empty() } else { group_toks(g.drop_last(), inv).push(sys_tok(g.last(), inv)) }
}
pub open spec fn groups_toks(gs: Seq<ArrayVec<SystemId, MAX_SYSTEMS_PER_GROUP>>, inv: Map<SystemId, Seq<char>>) -> Seq<Tok> decreases gs.len() {
    if gs.len() == 0 { Seq::empty() } else { groups_toks(gs.drop_last(), inv) + (seq![tok0("\t\tseq![")] + group_toks(gs.last()@, inv)).push(tok0("\t\t],")) }
}
pub open spec fn stages_toks(ss: IdsT, inv: Map<SystemId, Seq<char>>) -> Seq<Tok> decreases ss.len() {
    if ss.len() == 0 { Seq::empty() } else { stages_toks(ss.drop_last(), inv) + (seq![tok0("\tpar![")] + groups_toks(ss.last()@, inv)).push(tok0("\t],")) }
}
// seq![ par![ seq![ name, .. ], .. ], .. ]  : every id exactly once, at its table position
pub open spec fn render(ids: IdsT, inv: Map<SystemId, Seq<char>>) -> Seq<Tok> {
    (seq![tok0("seq![")] + stages_toks(ids, inv)).push(tok0("]"))
}
pub proof fn lemma_group_toks_take(g: Seq<SystemId>, inv: Map<SystemId, Seq<char>>, k: int)
    requires 0 <= k < g.len()
    ensures group_toks(g.take(k + 1), inv) == group_toks(g.take(k), inv).push(sys_tok(g[k], inv))
{ assert(g.take(k + 1).drop_last() =~= g.take(k)); }
pub proof fn lemma_groups_toks_take(gs: Seq<ArrayVec<SystemId, MAX_SYSTEMS_PER_GROUP>>, inv: Map<SystemId, Seq<char>>, k: int)
    requires 0 <= k < gs.len()
    ensures groups_toks(gs.take(k + 1), inv) == groups_toks(gs.take(k), inv) + (seq![tok0("\t\tseq![")] + group_toks(gs[k]@, inv)).push(tok0("\t\t],"))
{ assert(gs.take(k + 1).drop_last() =~= gs.take(k)); }
pub proof fn lemma_stages_toks_take(ss: IdsT, inv: Map<SystemId, Seq<char>>, k: int)
    requires 0 <= k < ss.len()
    ensures stages_toks(ss.take(k + 1), inv) == stages_toks(ss.take(k), inv) + (seq![tok0("\tpar![")] + groups_toks(ss[k]@, inv)).push(tok0("\t],"))
{ assert(ss.take(k + 1).drop_last() =~= ss.take(k)); }
