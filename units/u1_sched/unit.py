# U1: the scheduler (stage.rs, util.rs, parts of builder.rs / batch.rs / dispatcher.rs / send_dispatcher.rs)
STAGE = "src/dispatch/stage.rs"
SD = "src/dispatch/send_dispatcher.rs"
DISP = "src/dispatch/dispatcher.rs"
SB = r"StagesBuilder"

TYPE_RULES = [
    (r"SmallVec\s*<\s*\[\s*([^;\]]+?)\s*;\s*\d+\s*\]\s*>", r"Vec<\1>"),
    (r"\bGroupVec\s*<", "Vec<"),
    (r"\bSystemExecSend\b", "SysBox"),
    (r"Box\s*<\s*dyn\s+RunNow\s*(\+\s*Send\s*)?>", "SysBox"),
    (r"(::)?std::sync::Arc\s*<\s*(::)?std::sync::RwLock\s*<\s*ThreadPoolWrapper\s*>\s*>", "PoolHandle"),
    (r"\bSmallVec::new\(\)", "Vec::new()"),
    (r"\bGroupVec::new\(\)", "Vec::new()"),
]

NOISO = "#[verifier::loop_isolation(false)]"
PUBF = [(r"(?m)^(\s*)([a-z_]+\s*:)", r"\1pub \2")]   # struct fields made visible to spec functions

UNIT = dict(
    name="u1_sched",
    prelude=["prelude.rs", "prelude_b.rs"],
    contracts=["stage.vspec", "dispatch.vspec"],
    lib=[],
    type_rules=TYPE_RULES,
    method_renames={"iter": "vx_iter", "into_iter": "vx_into_iter", "abs": "vx_abs", "extend": "vx_extend", "sort": "vx_sort", "dedup": "vx_dedup"},
    macro_rules={
        "unreachable": lambda a: "vx_unreachable()",
        "panic": lambda a: "vx_panic()",
    },
    items=[
        dict(key="SystemId", file="src/dispatch/dispatcher.rs", kind="struct", name="SystemId"),
        dict(key="RunningTime", file="src/system.rs", kind="enum", name="RunningTime"),
        dict(key="MAX_SYSTEMS_PER_GROUP", file=STAGE, kind="const", name="MAX_SYSTEMS_PER_GROUP", rules=[(r"^const", "pub const")]),
        dict(key="Conflict", file=STAGE, kind="enum", name="Conflict", rules=[(r"\benum", "pub enum")]),
        dict(key="InsertionTarget", file=STAGE, kind="enum", name="InsertionTarget", rules=[(r"\benum", "pub enum")]),
        dict(key="Stage", file=STAGE, kind="struct", name="Stage", rules=PUBF),
        dict(key="StagesBuilder", file=STAGE, kind="struct", name="StagesBuilder", rules=PUBF),
        dict(key="SendDispatcher", file="src/dispatch/send_dispatcher.rs", kind="struct", name="SendDispatcher", rules=PUBF),
        dict(key="ThreadLocal", file="src/dispatch/dispatcher.rs", kind="type", name="ThreadLocal"),
        dict(key="Dispatcher", file="src/dispatch/dispatcher.rs", kind="struct", name="Dispatcher", rules=PUBF),
        dict(text=open(__file__.replace("unit.py", "lib_a.rs")).read()),
        dict(key="Stage::new", file=STAGE, kind="fn", name="new", owner=r"impl Stage\b", emit_owner="impl Stage", sig_prefix="#[verifier::external_body]", assumed="derive(Default) of Stage (SmallVec::default) yields no groups"),
        dict(key="Conflict::add", file=STAGE, kind="fn", name="add", owner=r"impl Conflict$", emit_owner="impl Conflict"),
        dict(key="check_intersection", file="src/dispatch/util.rs", kind="fn", name="check_intersection",
             drop_generics=True,
             sig_rules=[(r"\bfn check_intersection", "fn check_intersection<T: PartialEq + Structural>"),
                        (r"\bmut i\s*:\s*I\b", "mut i: It<T>"), (r"\bj\s*:\s*J\b", "j: It<T>")]),
        dict(key="StagesBuilder::find_conflict", file=STAGE, kind="fn", name="find_conflict", owner=SB, emit_owner="impl StagesBuilder",
             drop_generics=True, sig_rules=[(r"\bnew_reads\s*:\s*R\b", "new_reads: It<ResourceId>"), (r"\bnew_writes\s*:\s*W\b", "new_writes: It<ResourceId>")]),
        dict(key="StagesBuilder::remove_ids", file=STAGE, kind="fn", name="remove_ids", owner=SB, emit_owner="impl StagesBuilder", sig_prefix=NOISO + " #[verifier::allow_complex_invariants]"),
        dict(key="StagesBuilder::improves_balance", file=STAGE, kind="fn", name="improves_balance", owner=SB, emit_owner="impl StagesBuilder", sig_prefix=NOISO),
        dict(key="StagesBuilder::insertion_target", file=STAGE, kind="fn", name="insertion_target", owner=SB, emit_owner="impl StagesBuilder",
             drop_generics=True, sig_prefix=NOISO + " #[verifier::allow_complex_invariants]",
             sig_rules=[(r"\bnew_reads\s*:\s*R\b", "new_reads: &Vec<ResourceId>"), (r"\bnew_writes\s*:\s*W\b", "new_writes: &Vec<ResourceId>")]),
        dict(key="StagesBuilder::add_barrier", file=STAGE, kind="fn", name="add_barrier", owner=SB, emit_owner="impl StagesBuilder"),
        dict(key="StagesBuilder::add_stage", file=STAGE, kind="fn", name="add_stage", owner=SB, emit_owner="impl StagesBuilder"),
        dict(key="StagesBuilder::add_group", file=STAGE, kind="fn", name="add_group", owner=SB, emit_owner="impl StagesBuilder"),
        dict(key="StagesBuilder::fetch_all_reads", file=STAGE, kind="fn", name="fetch_all_reads", owner=SB, emit_owner="impl StagesBuilder", sig_prefix=NOISO),
        dict(key="StagesBuilder::fetch_all_writes", file=STAGE, kind="fn", name="fetch_all_writes", owner=SB, emit_owner="impl StagesBuilder", sig_prefix=NOISO),
        dict(text=open(__file__.replace("unit.py", "lib_b.rs")).read()),
        dict(key="Stage::setup", file=STAGE, kind="fn", name="setup", owner=r"impl Stage\b", emit_owner="impl Stage", sig_prefix=NOISO),
        dict(key="Stage::dispose", file=STAGE, kind="fn", name="dispose", owner=r"impl Stage\b", emit_owner="impl Stage", sig_prefix=NOISO),
        dict(key="Stage::execute", file=STAGE, kind="fn", name="execute", owner=r"impl Stage\b", emit_owner="impl Stage", sig_prefix=NOISO, cfg=["parallel"]),
        dict(key="Stage::max_threads", file=STAGE, kind="fn", name="max_threads", owner=r"impl Stage\b", emit_owner="impl Stage", cfg=["parallel"]),
        dict(key="Stage::execute_seq", file=STAGE, kind="fn", name="execute_seq", owner=r"impl Stage\b", emit_owner="impl Stage", sig_prefix=NOISO),
        dict(key="SendDispatcher::setup", file=SD, kind="fn", name="setup", owner=r"impl SendDispatcher\b", emit_owner="impl SendDispatcher", sig_prefix=NOISO),
        dict(key="SendDispatcher::dispose", file=SD, kind="fn", name="dispose", owner=r"impl SendDispatcher\b", emit_owner="impl SendDispatcher", sig_prefix=NOISO),
        dict(key="SendDispatcher::dispatch_par", file=SD, kind="fn", name="dispatch_par", owner=r"impl SendDispatcher\b", emit_owner="impl SendDispatcher", sig_prefix=NOISO, cfg=["parallel"], mut_iter_vars=["stages"]),
        dict(key="SendDispatcher::dispatch_seq", file=SD, kind="fn", name="dispatch_seq", owner=r"impl SendDispatcher\b", emit_owner="impl SendDispatcher", sig_prefix=NOISO),
        dict(key="SendDispatcher::dispatch", file=SD, kind="fn", name="dispatch", owner=r"impl SendDispatcher\b", emit_owner="impl SendDispatcher"),
        dict(key="SendDispatcher::max_threads", file=SD, kind="fn", name="max_threads", owner=r"impl SendDispatcher\b", emit_owner="impl SendDispatcher", sig_prefix=NOISO, cfg=["parallel"]),
        dict(key="StagesBuilder::insert", file=STAGE, kind="fn", name="insert", owner=SB, emit_owner="impl StagesBuilder",
             sig_rules=[(r"\binsert<T>", "insert<T: System>")], body_rules=[(r"Box::new\(system\)", "vx_boxed_sys(system)")]),
    ],
)
