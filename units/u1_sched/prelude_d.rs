// ======== U1 prelude, part d: formatting as a ghost token log (rule R10), names of the plan printer
#[verifier::external_body]
pub struct Formatter { _p: u8 }
pub struct FmtError;
pub type FmtResult = Result<(), FmtError>;
// one `writeln!`: its format string and, if any, its single argument (as text)
pub ghost struct Tok { pub fmt: Seq<char>, pub arg: Option<Seq<char>> }
impl Formatter { pub uninterp spec fn toks(&self) -> Seq<Tok>; }
#[verifier::external_body]
pub fn vx_writeln0(f: &mut Formatter, lit: &str) -> (r: FmtResult)
    ensures r is Ok ==> final(f).toks() == old(f).toks().push(Tok { fmt: lit@, arg: None })
{ unimplemented!() }
#[verifier::external_body]
pub fn vx_writeln1(f: &mut Formatter, lit: &str, arg: &String) -> (r: FmtResult)
    ensures r is Ok ==> final(f).toks() == old(f).toks().push(Tok { fmt: lit@, arg: Some(arg@) })
{ unimplemented!() }
// text operations of the printer: uninterpreted functions of their inputs
pub uninterp spec fn spec_sanitise(s: Seq<char>) -> Seq<char>;       // name.replace([' ', '-', '/'], "_")
pub uninterp spec fn spec_placeholder(n: usize) -> Seq<char>;        // format!("unnamed_{}", n)
pub trait VxString { spec fn vxs_(&self) -> Seq<char>; fn vx_replace(&self, pat: [char; 3], with: &str) -> (r: String) ensures r@ == spec_sanitise(self.vxs_()); }
impl VxString for String {
    open spec fn vxs_(&self) -> Seq<char> { self@ }
    #[verifier::external_body] fn vx_replace(&self, pat: [char; 3], with: &str) -> (r: String) { unimplemented!() }
}
pub trait VxStrTo { spec fn vxst(&self) -> Seq<char>; fn vx_to_string(&self) -> (r: String) ensures r@ == self.vxst(); }
impl VxStrTo for str {
    open spec fn vxst(&self) -> Seq<char> { self@ }
    #[verifier::external_body] fn vx_to_string(&self) -> (r: String) { unimplemented!() }
}
#[verifier::external_body]
pub fn vx_format_unnamed(n: usize) -> (r: String) ensures r@ == spec_placeholder(n) { unimplemented!() }
// the inverted name map `HashMap<SystemId, &str>` built by `map.iter().map(|(k, v)| (*v, k as &str)).collect()`:
// some name of every id that has one (iteration order of the hash map decides which, if several)
#[verifier::external_body]
pub struct InvMap<'a> { _p: &'a u8 }
impl<'a> View for InvMap<'a> { type V = Map<SystemId, Seq<char>>; uninterp spec fn view(&self) -> Map<SystemId, Seq<char>>; }
impl<'a> InvMap<'a> {
    #[verifier::external_body]
    pub fn get(&self, k: &SystemId) -> (r: Option<&&'a str>)
        ensures match r { Some(n) => self@.contains_key(*k) && (**n)@ == self@[*k], None => !self@.contains_key(*k) }
    { unimplemented!() }
}
#[verifier::external_body]
pub fn vx_invert<'a>(map: &'a NameMap) -> (r: InvMap<'a>)
    ensures forall|id: SystemId| r@.contains_key(id) ==> map@.contains_key(#[trigger] r@[id]) && map@[r@[id]] == id,
        forall|n: Seq<char>| map@.contains_key(n) ==> r@.contains_key(#[trigger] map@[n])
{ unimplemented!() }
