// ---- opaque identifiers (type substitution table of DESIGN.md 3.2c) ----
// ResourceId: only equality is used by the scheduler; modelled as a pair of abstract words.
#[derive(PartialEq, Eq, Structural)]
pub struct ResourceId { pub type_id: u64, pub dynamic_id: u64 }
impl Clone for ResourceId {
    fn clone(&self) -> (r: Self) ensures r == *self { ResourceId { type_id: self.type_id, dynamic_id: self.dynamic_id } }
}

// ---- panics (rule R8): mode T = total (a reachable panic is an error), mode P = partial (returns => guard held)
//@if T
#[verifier::external_body] pub fn vx_panic() -> ! requires false { panic!() }
#[verifier::external_body] pub fn vx_unreachable() -> ! requires false { unreachable!() }
pub fn vx_check(c: bool) requires c { }
//@endif
//@if P
#[verifier::external_body] pub fn vx_panic() -> ! { panic!() }
#[verifier::external_body] pub fn vx_unreachable() -> ! { panic!() }
#[verifier::external_body] pub fn vx_check(c: bool) ensures c { assert!(c) }
//@endif

// ---- ArrayVec<T, N> (arrayvec): a sequence with a fixed capacity; `push` panics when full
pub struct ArrayVec<T, const N: usize> { pub v: Vec<T> }
impl<T, const N: usize> View for ArrayVec<T, N> { type V = Seq<T>; open spec fn view(&self) -> Seq<T> { self.v@ } }
impl<T, const N: usize> ArrayVec<T, N> {
    pub fn new() -> (r: Self) ensures r@ == Seq::<T>::empty() { ArrayVec { v: Vec::new() } }
//@if T
    pub fn push(&mut self, x: T) requires old(self)@.len() < N ensures final(self)@ == old(self)@.push(x) { self.v.push(x) }
//@endif
//@if P
    #[verifier::external_body]
    pub fn push(&mut self, x: T) ensures old(self)@.len() < N, final(self)@ == old(self)@.push(x) { self.v.push(x) }
//@endif
    pub fn len(&self) -> (r: usize) ensures r == self@.len() { self.v.len() }
    pub fn as_slice(&self) -> (r: &[T]) ensures r@ == self@ { self.v.as_slice() }
}
impl<T, const N: usize> VxIter<T> for ArrayVec<T, N> {
    open spec fn vxs(&self) -> Seq<T> { self@ }
    fn vx_iter(&self) -> (r: It<'_, T>) { It::one(self.v.as_slice()) }
}
// ---- i8::abs (std): overflows only for i8::MIN
pub trait VxAbs: Sized { spec fn vxa(&self) -> int; fn vx_abs(self) -> (r: Self) requires self.vxa() > -128 ensures r.vxa() == (if self.vxa() < 0 { -self.vxa() } else { self.vxa() }); }
impl VxAbs for i8 {
    open spec fn vxa(&self) -> int { *self as int }
    fn vx_abs(self) -> (r: i8) { if self < 0 { -self } else { self } }
}
