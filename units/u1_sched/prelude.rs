// ---- opaque identifiers (type substitution table of DESIGN.md 3.2c) ----
// ResourceId: only equality is used by the scheduler; modelled as a pair of abstract words.
#[derive(PartialEq, Eq, Structural)]
pub struct ResourceId { pub type_id: u64, pub dynamic_id: u64 }
impl Clone for ResourceId {
    fn clone(&self) -> (r: Self) ensures r == *self { ResourceId { type_id: self.type_id, dynamic_id: self.dynamic_id } }
}

// ---- panics (rule R8): mode T = total (a reachable panic is an error), mode P = partial (returns => guard held)
//@if T
#[verifier::external_body] pub fn vx_panic() -> ! requires false { panic!() }
#[verifier::external_body] pub fn vx_unreachable() -> ! requires false { unreachable!() }
pub fn vx_check(c: bool) requires c { }
//@endif
//@if P
#[verifier::external_body] pub fn vx_panic() -> ! { panic!() }
#[verifier::external_body] pub fn vx_unreachable() -> ! { panic!() }
#[verifier::external_body] pub fn vx_check(c: bool) ensures c { assert!(c) }
//@endif

// ---- It: a read-only view of the concatenation of at most two slices (stands for slice::Iter and Chain of two)
pub struct It<'a, T> { pub a: &'a [T], pub b: Option<&'a [T]> }
impl<'a, T> View for It<'a, T> {
    type V = Seq<T>;
    open spec fn view(&self) -> Seq<T> { match self.b { Some(b) => self.a@ + b@, None => self.a@ } }
}
impl<'a, T> It<'a, T> {
    pub fn one(s: &'a [T]) -> (r: Self) ensures r@ == s@, r.b is None { It { a: s, b: None } }
    // trusted: the lengths of two live slices of non-zero-sized elements cannot sum beyond usize::MAX
    #[verifier::external_body]
    pub fn len(&self) -> (r: usize) ensures r == self@.len() {
        self.a.len() + match self.b { Some(b) => b.len(), None => 0 }
    }
    pub fn get(&self, k: usize) -> (r: &'a T) requires k < self@.len() ensures *r == self@[k as int] {
        if k < self.a.len() { &self.a[k] } else { match self.b { Some(b) => &b[k - self.a.len()], None => { proof { assert(false); } &self.a[0] } } }
    }
    pub fn chain(self, o: It<'a, T>) -> (r: Self)
        requires self.b is None, o.b is None,   // #subset: chains of more than two slices are outside the extractor's subset
        ensures r@ == self@ + o@
    { It { a: self.a, b: Some(o.a) } }
    pub fn clone(&self) -> (r: Self) ensures r == *self { It { a: self.a, b: self.b } }
    pub fn into_iter(self) -> (r: Self) ensures r == self { self }
}
pub trait VxIter<T> {
    spec fn vxs(&self) -> Seq<T>;
    fn vx_iter(&self) -> (r: It<'_, T>) ensures r@ == self.vxs(), r.b is None;
}
impl<T> VxIter<T> for Vec<T> {
    open spec fn vxs(&self) -> Seq<T> { self@ }
    fn vx_iter(&self) -> (r: It<'_, T>) { It::one(self.as_slice()) }
}

// ---- ArrayVec<T, N> (arrayvec): a sequence with a fixed capacity; `push` panics when full
pub struct ArrayVec<T, const N: usize> { pub v: Vec<T> }
impl<T, const N: usize> View for ArrayVec<T, N> { type V = Seq<T>; open spec fn view(&self) -> Seq<T> { self.v@ } }
impl<T, const N: usize> ArrayVec<T, N> {
    pub fn new() -> (r: Self) ensures r@ == Seq::<T>::empty() { ArrayVec { v: Vec::new() } }
//@if T
    pub fn push(&mut self, x: T) requires old(self)@.len() < N ensures final(self)@ == old(self)@.push(x) { self.v.push(x) }
//@endif
//@if P
    #[verifier::external_body]
    pub fn push(&mut self, x: T) ensures old(self)@.len() < N, final(self)@ == old(self)@.push(x) { self.v.push(x) }
//@endif
    pub fn len(&self) -> (r: usize) ensures r == self@.len() { self.v.len() }
    pub fn as_slice(&self) -> (r: &[T]) ensures r@ == self@ { self.v.as_slice() }
}
impl<T, const N: usize> VxIter<T> for ArrayVec<T, N> {
    open spec fn vxs(&self) -> Seq<T> { self@ }
    fn vx_iter(&self) -> (r: It<'_, T>) { It::one(self.v.as_slice()) }
}
pub trait VxIntoIt<'a, T> {
    spec fn vxi(&self) -> Seq<T>;
    fn vx_into_iter(self) -> (r: It<'a, T>) ensures r@ == self.vxi();
}
impl<'a, T> VxIntoIt<'a, T> for &'a Vec<T> {
    open spec fn vxi(&self) -> Seq<T> { self@ }
    fn vx_into_iter(self) -> (r: It<'a, T>) { It::one(self.as_slice()) }
}
impl<'a, T> VxIntoIt<'a, T> for It<'a, T> {
    open spec fn vxi(&self) -> Seq<T> { self@ }
    fn vx_into_iter(self) -> (r: It<'a, T>) { self }
}

// ---- Vec operations without a vstd specification
pub open spec fn same_set<T>(a: Seq<T>, b: Seq<T>) -> bool { forall|x: T| a.contains(x) <==> b.contains(x) }
pub trait VxVecExt<T>: Sized {
    spec fn vxv(&self) -> Seq<T>;
    fn vx_extend(&mut self, other: Vec<T>) ensures final(self).vxv() == old(self).vxv() + other@;
    // slice::sort / Vec::dedup: assumed to keep the set of elements (order and multiplicity are unspecified)
    fn vx_sort(&mut self) ensures same_set(final(self).vxv(), old(self).vxv());
    fn vx_dedup(&mut self) ensures same_set(final(self).vxv(), old(self).vxv());
}
impl<T> VxVecExt<T> for Vec<T> {
    open spec fn vxv(&self) -> Seq<T> { self@ }
    #[verifier::external_body] fn vx_extend(&mut self, other: Vec<T>) { self.extend(other) }
    #[verifier::external_body] fn vx_sort(&mut self) { unimplemented!() }
    #[verifier::external_body] fn vx_dedup(&mut self) { unimplemented!() }
}
// ---- i8::abs (std): overflows only for i8::MIN
pub trait VxAbs: Sized { spec fn vxa(&self) -> int; fn vx_abs(self) -> (r: Self) requires self.vxa() > -128 ensures r.vxa() == (if self.vxa() < 0 { -self.vxa() } else { self.vxa() }); }
impl VxAbs for i8 {
    open spec fn vxa(&self) -> int { *self as int }
    fn vx_abs(self) -> (r: i8) { if self < 0 { -self } else { self } }
}
