// ======== spec vocabulary for running / setting up / disposing the layout (C04, C12, C13)
// every box kept its identity and ran exactly k more times
pub open spec fn boxes_bumped(post: Seq<SysBox>, pre: Seq<SysBox>, k: nat) -> bool {
    post.len() == pre.len() && forall|p: int| 0 <= p < pre.len() ==> (#[trigger] post[p]).ident() == pre[p].ident() && post[p].runs() == pre[p].runs() + k
}
// every box kept its identity (what C13 needs of the run paths: hooks reach the same systems afterwards)
pub open spec fn boxes_same(post: Seq<SysBox>, pre: Seq<SysBox>) -> bool {
    post.len() == pre.len() && forall|p: int| 0 <= p < pre.len() ==> (#[trigger] post[p]).ident() == pre[p].ident()
}
pub open spec fn groups_same(post: GroupsT, pre: GroupsT) -> bool {
    post.len() == pre.len() && forall|g: int| 0 <= g < pre.len() ==> boxes_same(#[trigger] post[g]@, pre[g]@)
}
pub open spec fn stages_same(post: Seq<Stage>, pre: Seq<Stage>) -> bool {
    post.len() == pre.len() && forall|s: int| 0 <= s < pre.len() ==> groups_same(#[trigger] post[s].groups@, pre[s].groups@)
}
pub open spec fn setup_trace_of(b: Seq<SysBox>) -> Seq<int> decreases b.len() {
    if b.len() == 0 { Seq::empty() } else { setup_trace_of(b.drop_last()) + b.last().ident().setup }
}
pub open spec fn dispose_trace_of(b: Seq<SysBox>) -> Seq<int> decreases b.len() {
    if b.len() == 0 { Seq::empty() } else { dispose_trace_of(b.drop_last()) + b.last().ident().dispose }
}
pub type GroupsT = Seq<ArrayVec<SysBox, MAX_SYSTEMS_PER_GROUP>>;
pub open spec fn groups_setup_trace(gs: GroupsT) -> Seq<int> decreases gs.len() {
    if gs.len() == 0 { Seq::empty() } else { groups_setup_trace(gs.drop_last()) + setup_trace_of(gs.last()@) }
}
pub open spec fn groups_dispose_trace(gs: GroupsT) -> Seq<int> decreases gs.len() {
    if gs.len() == 0 { Seq::empty() } else { groups_dispose_trace(gs.drop_last()) + dispose_trace_of(gs.last()@) }
}
pub open spec fn groups_bumped(post: GroupsT, pre: GroupsT, k: nat) -> bool {
    post.len() == pre.len() && forall|g: int| 0 <= g < pre.len() ==> boxes_bumped(#[trigger] post[g]@, pre[g]@, k)
}
pub open spec fn stages_setup_trace(ss: Seq<Stage>) -> Seq<int> decreases ss.len() {
    if ss.len() == 0 { Seq::empty() } else { stages_setup_trace(ss.drop_last()) + groups_setup_trace(ss.last().groups@) }
}
pub open spec fn stages_dispose_trace(ss: Seq<Stage>) -> Seq<int> decreases ss.len() {
    if ss.len() == 0 { Seq::empty() } else { stages_dispose_trace(ss.drop_last()) + groups_dispose_trace(ss.last().groups@) }
}
pub open spec fn stages_bumped(post: Seq<Stage>, pre: Seq<Stage>, k: nat) -> bool {
    post.len() == pre.len() && forall|s: int| 0 <= s < pre.len() ==> groups_bumped(#[trigger] post[s].groups@, pre[s].groups@, k)
}
// prefix lemmas: the trace of the first k+1 elements is the trace of the first k plus the k-th element's
pub proof fn lemma_setup_trace_take(b: Seq<SysBox>, k: int)
    requires 0 <= k < b.len()
    ensures setup_trace_of(b.take(k + 1)) == setup_trace_of(b.take(k)) + b[k].ident().setup, dispose_trace_of(b.take(k + 1)) == dispose_trace_of(b.take(k)) + b[k].ident().dispose
{ assert(b.take(k + 1).drop_last() =~= b.take(k)); }
pub proof fn lemma_groups_trace_take(gs: GroupsT, k: int)
    requires 0 <= k < gs.len()
    ensures groups_setup_trace(gs.take(k + 1)) == groups_setup_trace(gs.take(k)) + setup_trace_of(gs[k]@), groups_dispose_trace(gs.take(k + 1)) == groups_dispose_trace(gs.take(k)) + dispose_trace_of(gs[k]@)
{ assert(gs.take(k + 1).drop_last() =~= gs.take(k)); }
pub proof fn lemma_stages_trace_take(ss: Seq<Stage>, k: int)
    requires 0 <= k < ss.len()
    ensures stages_setup_trace(ss.take(k + 1)) == stages_setup_trace(ss.take(k)) + groups_setup_trace(ss[k].groups@), stages_dispose_trace(ss.take(k + 1)) == stages_dispose_trace(ss.take(k)) + groups_dispose_trace(ss[k].groups@)
{ assert(ss.take(k + 1).drop_last() =~= ss.take(k)); }
pub proof fn lemma_take_all<T>(s: Seq<T>) ensures s.take(s.len() as int) == s, s.take(0) == Seq::<T>::empty()
{ assert(s.take(s.len() as int) =~= s); assert(s.take(0) =~= Seq::<T>::empty()); }
// suffix form, for the consuming loops of `dispose` (elements are popped from the front)
pub proof fn lemma_dispose_trace_front(b: Seq<SysBox>)
    requires b.len() > 0
    ensures dispose_trace_of(b) == b[0].ident().dispose + dispose_trace_of(b.subrange(1, b.len() as int))
    decreases b.len()
{
    let rest = b.subrange(1, b.len() as int);
    if b.len() == 1 {
        assert(b.drop_last() =~= Seq::<SysBox>::empty()); assert(rest =~= Seq::<SysBox>::empty());
    } else {
        lemma_dispose_trace_front(b.drop_last());
        assert(b.drop_last().subrange(1, b.len() - 1) =~= rest.drop_last());
        assert(rest.last() == b.last());
        assert(b.drop_last()[0] == b[0]);
    }
}
pub proof fn lemma_groups_dispose_front(gs: GroupsT)
    requires gs.len() > 0
    ensures groups_dispose_trace(gs) == dispose_trace_of(gs[0]@) + groups_dispose_trace(gs.subrange(1, gs.len() as int))
    decreases gs.len()
{
    let rest = gs.subrange(1, gs.len() as int);
    if gs.len() == 1 {
        assert(gs.drop_last() =~= Seq::empty()); assert(rest =~= Seq::empty());
    } else {
        lemma_groups_dispose_front(gs.drop_last());
        assert(gs.drop_last().subrange(1, gs.len() - 1) =~= rest.drop_last());
        assert(rest.last() == gs.last());
        assert(gs.drop_last()[0] == gs[0]);
    }
}
pub proof fn lemma_stages_dispose_front(ss: Seq<Stage>)
    requires ss.len() > 0
    ensures stages_dispose_trace(ss) == groups_dispose_trace(ss[0].groups@) + stages_dispose_trace(ss.subrange(1, ss.len() as int))
    decreases ss.len()
{
    let rest = ss.subrange(1, ss.len() as int);
    if ss.len() == 1 {
        assert(ss.drop_last() =~= Seq::empty()); assert(rest =~= Seq::empty());
    } else {
        lemma_stages_dispose_front(ss.drop_last());
        assert(ss.drop_last().subrange(1, ss.len() - 1) =~= rest.drop_last());
        assert(rest.last() == ss.last());
        assert(ss.drop_last()[0] == ss[0]);
    }
}
impl Stage {
    pub open spec fn bumped(&self, pre: &Stage, k: nat) -> bool { groups_bumped(self.groups@, pre.groups@, k) }
    pub open spec fn same(&self, pre: &Stage) -> bool { groups_same(self.groups@, pre.groups@) }
    pub open spec fn setup_trace(&self) -> Seq<int> { groups_setup_trace(self.groups@) }
    pub open spec fn dispose_trace(&self) -> Seq<int> { groups_dispose_trace(self.groups@) }
}
impl SendDispatcher {
    pub open spec fn bumped(&self, pre: &SendDispatcher, k: nat) -> bool { stages_bumped(self.stages@, pre.stages@, k) }
    pub open spec fn same(&self, pre: &SendDispatcher) -> bool { stages_same(self.stages@, pre.stages@) }
    pub open spec fn setup_trace(&self) -> Seq<int> { stages_setup_trace(self.stages@) }
    pub open spec fn dispose_trace(&self) -> Seq<int> { stages_dispose_trace(self.stages@) }
}
impl Dispatcher {
    pub open spec fn bumped(&self, pre: &Dispatcher, k: nat) -> bool { self.inner.bumped(&pre.inner, k) && boxes_bumped(self.thread_local@, pre.thread_local@, k) }
    pub open spec fn same(&self, pre: &Dispatcher) -> bool { self.inner.same(&pre.inner) && boxes_same(self.thread_local@, pre.thread_local@) }
    // C12 / C13: the staged part first, then the thread-local systems in registration order
    pub open spec fn setup_trace(&self) -> Seq<int> { self.inner.setup_trace() + setup_trace_of(self.thread_local@) }
    pub open spec fn dispose_trace(&self) -> Seq<int> { self.inner.dispose_trace() + dispose_trace_of(self.thread_local@) }
}
pub proof fn lemma_boxes_bumped_trans(c: Seq<SysBox>, b: Seq<SysBox>, a: Seq<SysBox>, j: nat, k: nat)
    requires boxes_bumped(c, b, j), boxes_bumped(b, a, k)
    ensures boxes_bumped(c, a, j + k)
{
    assert forall|p: int| 0 <= p < a.len() implies (#[trigger] c[p]).ident() == a[p].ident() && c[p].runs() == a[p].runs() + (j + k) by {
        assert(b[p].ident() == a[p].ident());
    }
}
pub proof fn lemma_groups_bumped_trans(c: GroupsT, b: GroupsT, a: GroupsT, j: nat, k: nat)
    requires groups_bumped(c, b, j), groups_bumped(b, a, k)
    ensures groups_bumped(c, a, j + k)
{
    assert forall|g: int| 0 <= g < a.len() implies boxes_bumped(#[trigger] c[g]@, a[g]@, j + k) by {
        assert(boxes_bumped(b[g]@, a[g]@, k));
        lemma_boxes_bumped_trans(c[g]@, b[g]@, a[g]@, j, k);
    }
}
pub proof fn lemma_stages_bumped_trans(c: Seq<Stage>, b: Seq<Stage>, a: Seq<Stage>, j: nat, k: nat)
    requires stages_bumped(c, b, j), stages_bumped(b, a, k)
    ensures stages_bumped(c, a, j + k)
{
    assert forall|s: int| 0 <= s < a.len() implies groups_bumped(#[trigger] c[s].groups@, a[s].groups@, j + k) by {
        assert(groups_bumped(b[s].groups@, a[s].groups@, k));
        lemma_groups_bumped_trans(c[s].groups@, b[s].groups@, a[s].groups@, j, k);
    }
}
// hook traces depend on identities only
pub proof fn lemma_boxes_same_traces(post: Seq<SysBox>, pre: Seq<SysBox>)
    requires boxes_same(post, pre)
    ensures setup_trace_of(post) == setup_trace_of(pre), dispose_trace_of(post) == dispose_trace_of(pre)
    decreases pre.len()
{
    if pre.len() > 0 {
        assert(boxes_same(post.drop_last(), pre.drop_last())) by {
            assert forall|p: int| 0 <= p < pre.drop_last().len() implies (#[trigger] post.drop_last()[p]).ident() == pre.drop_last()[p].ident() by {
                assert(post[p].ident() == pre[p].ident());
            }
        }
        lemma_boxes_same_traces(post.drop_last(), pre.drop_last());
        assert(post[pre.len() - 1].ident() == pre[pre.len() - 1].ident());
    }
}
pub proof fn lemma_groups_same_traces(post: GroupsT, pre: GroupsT)
    requires groups_same(post, pre)
    ensures groups_setup_trace(post) == groups_setup_trace(pre), groups_dispose_trace(post) == groups_dispose_trace(pre)
    decreases pre.len()
{
    if pre.len() > 0 {
        assert(groups_same(post.drop_last(), pre.drop_last())) by {
            assert forall|g: int| 0 <= g < pre.drop_last().len() implies boxes_same(#[trigger] post.drop_last()[g]@, pre.drop_last()[g]@) by {
                assert(boxes_same(post[g]@, pre[g]@));
            }
        }
        lemma_groups_same_traces(post.drop_last(), pre.drop_last());
        assert(boxes_same(post[pre.len() - 1]@, pre[pre.len() - 1]@));
        lemma_boxes_same_traces(post.last()@, pre.last()@);
    }
}
pub proof fn lemma_stages_same_traces(post: Seq<Stage>, pre: Seq<Stage>)
    requires stages_same(post, pre)
    ensures stages_setup_trace(post) == stages_setup_trace(pre), stages_dispose_trace(post) == stages_dispose_trace(pre)
    decreases pre.len()
{
    if pre.len() > 0 {
        assert(stages_same(post.drop_last(), pre.drop_last())) by {
            assert forall|s: int| 0 <= s < pre.drop_last().len() implies groups_same(#[trigger] post.drop_last()[s].groups@, pre.drop_last()[s].groups@) by {
                assert(groups_same(post[s].groups@, pre[s].groups@));
            }
        }
        lemma_stages_same_traces(post.drop_last(), pre.drop_last());
        assert(groups_same(post[pre.len() - 1].groups@, pre[pre.len() - 1].groups@));
        lemma_groups_same_traces(post.last().groups@, pre.last().groups@);
    }
}
pub proof fn lemma_boxes_same_trans(c: Seq<SysBox>, b: Seq<SysBox>, a: Seq<SysBox>)
    requires boxes_same(c, b), boxes_same(b, a)
    ensures boxes_same(c, a)
{
    assert forall|p: int| 0 <= p < a.len() implies (#[trigger] c[p]).ident() == a[p].ident() by { assert(b[p].ident() == a[p].ident()); }
}
pub proof fn lemma_groups_same_trans(c: GroupsT, b: GroupsT, a: GroupsT)
    requires groups_same(c, b), groups_same(b, a)
    ensures groups_same(c, a)
{
    assert forall|g: int| 0 <= g < a.len() implies boxes_same(#[trigger] c[g]@, a[g]@) by {
        assert(boxes_same(b[g]@, a[g]@));
        lemma_boxes_same_trans(c[g]@, b[g]@, a[g]@);
    }
}
pub proof fn lemma_stages_same_trans(c: Seq<Stage>, b: Seq<Stage>, a: Seq<Stage>)
    requires stages_same(c, b), stages_same(b, a)
    ensures stages_same(c, a)
{
    assert forall|s: int| 0 <= s < a.len() implies groups_same(#[trigger] c[s].groups@, a[s].groups@) by {
        assert(groups_same(b[s].groups@, a[s].groups@));
        lemma_groups_same_trans(c[s].groups@, b[s].groups@, a[s].groups@);
    }
}
