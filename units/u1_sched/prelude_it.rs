// ======== shared prelude: slice iterators as index-able views (rule R4 and friends), Vec operations without vstd specs
// ---- It: a read-only view of the concatenation of at most two slices (stands for slice::Iter and Chain of two)
pub struct It<'a, T> { pub a: &'a [T], pub b: Option<&'a [T]> }
impl<'a, T> View for It<'a, T> {
    type V = Seq<T>;
    open spec fn view(&self) -> Seq<T> { match self.b { Some(b) => self.a@ + b@, None => self.a@ } }
}
impl<'a, T> It<'a, T> {
    pub fn one(s: &'a [T]) -> (r: Self) ensures r@ == s@, r.b is None { It { a: s, b: None } }
    // trusted: the lengths of two live slices of non-zero-sized elements cannot sum beyond usize::MAX
    #[verifier::external_body]
    pub fn len(&self) -> (r: usize) ensures r == self@.len() {
        self.a.len() + match self.b { Some(b) => b.len(), None => 0 }
    }
    pub fn get(&self, k: usize) -> (r: &'a T) requires k < self@.len() ensures *r == self@[k as int] {
        if k < self.a.len() { &self.a[k] } else { match self.b { Some(b) => &b[k - self.a.len()], None => { proof { assert(false); } &self.a[0] } } }
    }
    pub fn chain(self, o: It<'a, T>) -> (r: Self)
        requires self.b is None, o.b is None,   // #subset: chains of more than two slices are outside the extractor's subset
        ensures r@ == self@ + o@
    { It { a: self.a, b: Some(o.a) } }
    pub fn clone(&self) -> (r: Self) ensures r == *self { It { a: self.a, b: self.b } }
    pub fn into_iter(self) -> (r: Self) ensures r == self { self }
}
pub trait VxIter<T> {
    spec fn vxs(&self) -> Seq<T>;
    fn vx_iter(&self) -> (r: It<'_, T>) ensures r@ == self.vxs(), r.b is None;
}
impl<T> VxIter<T> for Vec<T> {
    open spec fn vxs(&self) -> Seq<T> { self@ }
    fn vx_iter(&self) -> (r: It<'_, T>) { It::one(self.as_slice()) }
}

pub trait VxIntoIt<'a, T> {
    spec fn vxi(&self) -> Seq<T>;
    fn vx_into_iter(self) -> (r: It<'a, T>) ensures r@ == self.vxi();
}
impl<'a, T> VxIntoIt<'a, T> for &'a Vec<T> {
    open spec fn vxi(&self) -> Seq<T> { self@ }
    fn vx_into_iter(self) -> (r: It<'a, T>) { It::one(self.as_slice()) }
}
impl<'a, T> VxIntoIt<'a, T> for It<'a, T> {
    open spec fn vxi(&self) -> Seq<T> { self@ }
    fn vx_into_iter(self) -> (r: It<'a, T>) { self }
}

// ---- Vec operations without a vstd specification
pub open spec fn same_set<T>(a: Seq<T>, b: Seq<T>) -> bool { forall|x: T| a.contains(x) <==> b.contains(x) }
pub trait VxVecExt<T>: Sized {
    spec fn vxv(&self) -> Seq<T>;
    fn vx_extend(&mut self, other: Vec<T>) ensures final(self).vxv() == old(self).vxv() + other@;
    // slice::sort / Vec::dedup: assumed to keep the set of elements (order and multiplicity are unspecified)
    fn vx_sort(&mut self) ensures same_set(final(self).vxv(), old(self).vxv());
    fn vx_dedup(&mut self) ensures same_set(final(self).vxv(), old(self).vxv());
}
impl<T> VxVecExt<T> for Vec<T> {
    open spec fn vxv(&self) -> Seq<T> { self@ }
    #[verifier::external_body] fn vx_extend(&mut self, other: Vec<T>) { self.extend(other) }
    #[verifier::external_body] fn vx_sort(&mut self) { unimplemented!() }
    #[verifier::external_body] fn vx_dedup(&mut self) { unimplemented!() }
}
