// ======== spec vocabulary of U1 (pure Verus; mentions no code)
// puts a term in front of the solver (trigger for the quantified invariants)
pub proof fn mention(b: bool) {}
pub type IdsT = Seq<Vec<ArrayVec<SystemId, MAX_SYSTEMS_PER_GROUP>>>;
pub type RwsT = Seq<Vec<Vec<ResourceId>>>;

pub open spec fn inter<T>(a: Seq<T>, b: Seq<T>) -> bool {
    exists|i: int, j: int| 0 <= i < a.len() && 0 <= j < b.len() && a[i] == b[j]
}
pub open spec fn spec_conflict_add(c: Conflict, g: usize) -> Conflict {
    match c { Conflict::None => Conflict::Single(g), _ => Conflict::Multiple }
}
// C01: does a system declaring (nr, nw) conflict on resources with a group whose accumulated access is (reads, writes)?
// W/W, W/R and R/W overlap, on full ResourceId equality.
pub open spec fn res_conflict(reads: Seq<ResourceId>, writes: Seq<ResourceId>, nr: Seq<ResourceId>, nw: Seq<ResourceId>) -> bool {
    inter(nw, writes + reads) || inter(nr, writes)
}
pub open spec fn grp_hit(ids: Seq<SystemId>, reads: Seq<ResourceId>, writes: Seq<ResourceId>, nr: Seq<ResourceId>, nw: Seq<ResourceId>, dep: Seq<SystemId>) -> bool {
    res_conflict(reads, writes, nr, nw) || inter(dep, ids)
}
pub open spec fn grp_dep_only(ids: Seq<SystemId>, reads: Seq<ResourceId>, writes: Seq<ResourceId>, nr: Seq<ResourceId>, nw: Seq<ResourceId>, dep: Seq<SystemId>) -> bool {
    !res_conflict(reads, writes, nr, nw) && inter(dep, ids)
}
pub open spec fn shape_ok(ids: IdsT, reads: RwsT, writes: RwsT, stage: int) -> bool {
    0 <= stage < ids.len() && ids.len() == reads.len() && ids.len() == writes.len()
    && ids[stage].len() == reads[stage].len() && ids[stage].len() == writes[stage].len()
}
pub open spec fn hit_at(ids: IdsT, reads: RwsT, writes: RwsT, stage: int, g: int, nr: Seq<ResourceId>, nw: Seq<ResourceId>, dep: Seq<SystemId>) -> bool {
    grp_hit(ids[stage][g]@, reads[stage][g]@, writes[stage][g]@, nr, nw, dep)
}
pub open spec fn dep_only_at(ids: IdsT, reads: RwsT, writes: RwsT, stage: int, g: int, nr: Seq<ResourceId>, nw: Seq<ResourceId>, dep: Seq<SystemId>) -> bool {
    grp_dep_only(ids[stage][g]@, reads[stage][g]@, writes[stage][g]@, nr, nw, dep)
}
// fold of Conflict::add over the hit groups in [0, n)
pub open spec fn fold_hits(ids: IdsT, reads: RwsT, writes: RwsT, stage: int, nr: Seq<ResourceId>, nw: Seq<ResourceId>, dep: Seq<SystemId>, n: int) -> Conflict
    decreases n
{
    if n <= 0 { Conflict::None } else {
        let prev = fold_hits(ids, reads, writes, stage, nr, nw, dep, n - 1);
        if hit_at(ids, reads, writes, stage, n - 1, nr, nw, dep) { spec_conflict_add(prev, (n - 1) as usize) } else { prev }
    }
}
pub open spec fn any_dep_only(ids: IdsT, reads: RwsT, writes: RwsT, stage: int, nr: Seq<ResourceId>, nw: Seq<ResourceId>, dep: Seq<SystemId>, n: int) -> bool
    decreases n
{
    n > 0 && (any_dep_only(ids, reads, writes, stage, nr, nw, dep, n - 1) || dep_only_at(ids, reads, writes, stage, n - 1, nr, nw, dep))
}
pub open spec fn spec_find_conflict(ids: IdsT, reads: RwsT, writes: RwsT, stage: int, nr: Seq<ResourceId>, nw: Seq<ResourceId>, dep: Seq<SystemId>) -> Conflict {
    let n = ids[stage].len() as int;
    let dc = any_dep_only(ids, reads, writes, stage, nr, nw, dep, n);
    if (dc && dep.len() > 1) || (!dc && dep.len() != 0) { Conflict::Multiple } else { fold_hits(ids, reads, writes, stage, nr, nw, dep, n) }
}
// ---- what a verdict means, one predicate per property (find_conflict is proved against each directly)
// C01: a stage is offered as `None` only if no group conflicts on resources, as `Single(h)` only if no other group does
pub open spec fn verdict_iso(c: Conflict, ids: IdsT, reads: RwsT, writes: RwsT, stage: int, nr: Seq<ResourceId>, nw: Seq<ResourceId>) -> bool {
    match c {
        Conflict::None => forall|g: int| 0 <= g < ids[stage].len() ==> !res_conflict(#[trigger] reads[stage][g]@, writes[stage][g]@, nr, nw),
        Conflict::Single(h) => h < ids[stage].len()
            && (forall|g: int| 0 <= g < ids[stage].len() && g != h ==> !res_conflict(#[trigger] reads[stage][g]@, writes[stage][g]@, nr, nw)),
        Conflict::Multiple => true,
    }
}
// C02: `None` only with no pending dependency; `Single(h)` only if every pending dependency is inside group h
pub open spec fn verdict_dep(c: Conflict, ids: IdsT, stage: int, dep: Seq<SystemId>) -> bool {
    match c {
        Conflict::None => dep.len() == 0,
        Conflict::Single(h) => h < ids[stage].len() && (forall|i: int| 0 <= i < dep.len() ==> ids[stage][h as int]@.contains(#[trigger] dep[i])),
        Conflict::Multiple => true,
    }
}
// C10: a stage is refused only for a reason: a group that conflicts / holds a dependency, or dependencies still pending
pub open spec fn verdict_fit(c: Conflict, ids: IdsT, reads: RwsT, writes: RwsT, stage: int, nr: Seq<ResourceId>, nw: Seq<ResourceId>, dep: Seq<SystemId>) -> bool {
    match c {
        Conflict::None => true,
        Conflict::Single(h) => h < ids[stage].len() && hit_at(ids, reads, writes, stage, h as int, nr, nw, dep),
        Conflict::Multiple => dep.len() != 0
            || exists|g: int| 0 <= g < ids[stage].len() && res_conflict(#[trigger] reads[stage][g]@, writes[stage][g]@, nr, nw),
    }
}
pub open spec fn acc_sound(c: Conflict, ids: IdsT, reads: RwsT, writes: RwsT, stage: int, nr: Seq<ResourceId>, nw: Seq<ResourceId>, dep: Seq<SystemId>, n: int) -> bool {
    match c {
        Conflict::None => forall|g: int| 0 <= g < n ==> !#[trigger] hit_at(ids, reads, writes, stage, g, nr, nw, dep),
        Conflict::Single(h) => 0 <= h < n && forall|g: int| 0 <= g < n && g != h ==> !#[trigger] hit_at(ids, reads, writes, stage, g, nr, nw, dep),
        Conflict::Multiple => true,
    }
}
pub open spec fn acc_complete(c: Conflict, ids: IdsT, reads: RwsT, writes: RwsT, stage: int, nr: Seq<ResourceId>, nw: Seq<ResourceId>, dep: Seq<SystemId>, n: int) -> bool {
    match c {
        Conflict::None => true,
        Conflict::Single(h) => 0 <= h < n && hit_at(ids, reads, writes, stage, h as int, nr, nw, dep),
        Conflict::Multiple => exists|g: int| 0 <= g < n && #[trigger] hit_at(ids, reads, writes, stage, g, nr, nw, dep),
    }
}
pub proof fn lemma_acc_sound_iso(c: Conflict, ids: IdsT, reads: RwsT, writes: RwsT, stage: int, nr: Seq<ResourceId>, nw: Seq<ResourceId>, dep: Seq<SystemId>)
    requires acc_sound(c, ids, reads, writes, stage, nr, nw, dep, ids[stage].len() as int)
    ensures verdict_iso(c, ids, reads, writes, stage, nr, nw)
{
    let n = ids[stage].len() as int;
    match c {
        Conflict::None => {
            assert forall|g: int| 0 <= g < n implies !res_conflict(#[trigger] reads[stage][g]@, writes[stage][g]@, nr, nw) by {
                assert(!hit_at(ids, reads, writes, stage, g, nr, nw, dep));
            }
        }
        Conflict::Single(h) => {
            assert forall|g: int| 0 <= g < n && g != h implies !res_conflict(#[trigger] reads[stage][g]@, writes[stage][g]@, nr, nw) by {
                assert(!hit_at(ids, reads, writes, stage, g, nr, nw, dep));
            }
        }
        Conflict::Multiple => {}
    }
}
// the verdict finally returned is `c` unless the dependency test overrides it with Multiple
pub proof fn lemma_acc_sound_dep(c: Conflict, dc: bool, ids: IdsT, reads: RwsT, writes: RwsT, stage: int, nr: Seq<ResourceId>, nw: Seq<ResourceId>, dep: Seq<SystemId>)
    requires
        acc_sound(c, ids, reads, writes, stage, nr, nw, dep, ids[stage].len() as int),
        dc ==> exists|g: int| 0 <= g < ids[stage].len() && #[trigger] hit_at(ids, reads, writes, stage, g, nr, nw, dep) && inter(dep, ids[stage][g]@),
    ensures
        !((dc && dep.len() > 1) || (!dc && dep.len() != 0)) ==> verdict_dep(c, ids, stage, dep)
{
    let n = ids[stage].len() as int;
    if !((dc && dep.len() > 1) || (!dc && dep.len() != 0)) {
        if dep.len() != 0 {
            let g = choose|g: int| 0 <= g < n && #[trigger] hit_at(ids, reads, writes, stage, g, nr, nw, dep) && inter(dep, ids[stage][g]@);
            match c {
                Conflict::None => { assert(false); }
                Conflict::Single(h) => {
                    assert(g == h);
                    let (a, b) = choose|a: int, b: int| 0 <= a < dep.len() && 0 <= b < ids[stage][g]@.len() && dep[a] == ids[stage][g]@[b];
                    assert forall|i: int| 0 <= i < dep.len() implies ids[stage][h as int]@.contains(#[trigger] dep[i]) by {
                        assert(i == 0 && a == 0);
                        assert(ids[stage][h as int]@[b] == dep[i]);
                    }
                }
                Conflict::Multiple => {}
            }
        }
    }
}
pub proof fn lemma_acc_complete(c: Conflict, dc: bool, ids: IdsT, reads: RwsT, writes: RwsT, stage: int, nr: Seq<ResourceId>, nw: Seq<ResourceId>, dep: Seq<SystemId>)
    requires
        acc_complete(c, ids, reads, writes, stage, nr, nw, dep, ids[stage].len() as int),
    ensures
        !((dc && dep.len() > 1) || (!dc && dep.len() != 0)) ==> verdict_fit(c, ids, reads, writes, stage, nr, nw, dep),
{
    let n = ids[stage].len() as int;
    if !((dc && dep.len() > 1) || (!dc && dep.len() != 0)) {
        match c {
            Conflict::Multiple => {
                if dep.len() == 0 {
                    let g = choose|g: int| 0 <= g < n && #[trigger] hit_at(ids, reads, writes, stage, g, nr, nw, dep);
                    assert(!inter(dep, ids[stage][g]@));
                    assert(res_conflict(reads[stage][g]@, writes[stage][g]@, nr, nw));
                }
            }
            _ => {}
        }
    }
}
