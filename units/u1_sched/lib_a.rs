// ======== spec vocabulary of U1 (pure Verus; mentions no code)
// puts a term in front of the solver (trigger for the quantified invariants)
pub proof fn mention(b: bool) {}
// names the existential witness of `insert`'s postconditions (slot and the sorted read list)
pub open spec fn at_slot(s: int, g: int, rs: Seq<ResourceId>) -> bool { true }
pub type IdsT = Seq<Vec<ArrayVec<SystemId, MAX_SYSTEMS_PER_GROUP>>>;
pub type RwsT = Seq<Vec<Vec<ResourceId>>>;

pub open spec fn inter<T>(a: Seq<T>, b: Seq<T>) -> bool {
    exists|i: int, j: int| 0 <= i < a.len() && 0 <= j < b.len() && a[i] == b[j]
}
pub open spec fn spec_conflict_add(c: Conflict, g: usize) -> Conflict {
    match c { Conflict::None => Conflict::Single(g), _ => Conflict::Multiple }
}
// C01: does a system declaring (nr, nw) conflict on resources with a group whose accumulated access is (reads, writes)?
// W/W, W/R and R/W overlap, on full ResourceId equality.
pub open spec fn res_conflict(reads: Seq<ResourceId>, writes: Seq<ResourceId>, nr: Seq<ResourceId>, nw: Seq<ResourceId>) -> bool {
    inter(nw, writes + reads) || inter(nr, writes)
}
pub open spec fn grp_hit(ids: Seq<SystemId>, reads: Seq<ResourceId>, writes: Seq<ResourceId>, nr: Seq<ResourceId>, nw: Seq<ResourceId>, dep: Seq<SystemId>) -> bool {
    res_conflict(reads, writes, nr, nw) || inter(dep, ids)
}
pub open spec fn grp_dep_only(ids: Seq<SystemId>, reads: Seq<ResourceId>, writes: Seq<ResourceId>, nr: Seq<ResourceId>, nw: Seq<ResourceId>, dep: Seq<SystemId>) -> bool {
    !res_conflict(reads, writes, nr, nw) && inter(dep, ids)
}
pub open spec fn shape_ok(ids: IdsT, reads: RwsT, writes: RwsT, stage: int) -> bool {
    0 <= stage < ids.len() && ids.len() == reads.len() && ids.len() == writes.len()
    && ids[stage].len() == reads[stage].len() && ids[stage].len() == writes[stage].len()
}
pub open spec fn hit_at(ids: IdsT, reads: RwsT, writes: RwsT, stage: int, g: int, nr: Seq<ResourceId>, nw: Seq<ResourceId>, dep: Seq<SystemId>) -> bool {
    grp_hit(ids[stage][g]@, reads[stage][g]@, writes[stage][g]@, nr, nw, dep)
}
pub open spec fn dep_only_at(ids: IdsT, reads: RwsT, writes: RwsT, stage: int, g: int, nr: Seq<ResourceId>, nw: Seq<ResourceId>, dep: Seq<SystemId>) -> bool {
    grp_dep_only(ids[stage][g]@, reads[stage][g]@, writes[stage][g]@, nr, nw, dep)
}
// fold of Conflict::add over the hit groups in [0, n)
pub open spec fn fold_hits(ids: IdsT, reads: RwsT, writes: RwsT, stage: int, nr: Seq<ResourceId>, nw: Seq<ResourceId>, dep: Seq<SystemId>, n: int) -> Conflict
    decreases n
{
    if n <= 0 { Conflict::None } else {
        let prev = fold_hits(ids, reads, writes, stage, nr, nw, dep, n - 1);
        if hit_at(ids, reads, writes, stage, n - 1, nr, nw, dep) { spec_conflict_add(prev, (n - 1) as usize) } else { prev }
    }
}
pub open spec fn any_dep_only(ids: IdsT, reads: RwsT, writes: RwsT, stage: int, nr: Seq<ResourceId>, nw: Seq<ResourceId>, dep: Seq<SystemId>, n: int) -> bool
    decreases n
{
    n > 0 && (any_dep_only(ids, reads, writes, stage, nr, nw, dep, n - 1) || dep_only_at(ids, reads, writes, stage, n - 1, nr, nw, dep))
}
pub open spec fn spec_find_conflict(ids: IdsT, reads: RwsT, writes: RwsT, stage: int, nr: Seq<ResourceId>, nw: Seq<ResourceId>, dep: Seq<SystemId>) -> Conflict {
    let n = ids[stage].len() as int;
    let dc = any_dep_only(ids, reads, writes, stage, nr, nw, dep, n);
    if (dc && dep.len() > 1) || (!dc && dep.len() != 0) { Conflict::Multiple } else { fold_hits(ids, reads, writes, stage, nr, nw, dep, n) }
}
// ---- what a verdict means, one predicate per property (find_conflict is proved against each directly)
// C01: a stage is offered as `None` only if no group conflicts on resources, as `Single(h)` only if no other group does
pub open spec fn verdict_iso(c: Conflict, ids: IdsT, reads: RwsT, writes: RwsT, stage: int, nr: Seq<ResourceId>, nw: Seq<ResourceId>) -> bool {
    match c {
        Conflict::None => forall|g: int| 0 <= g < ids[stage].len() ==> !res_conflict(#[trigger] reads[stage][g]@, writes[stage][g]@, nr, nw),
        Conflict::Single(h) => h < ids[stage].len()
            && (forall|g: int| 0 <= g < ids[stage].len() && g != h ==> !res_conflict(#[trigger] reads[stage][g]@, writes[stage][g]@, nr, nw)),
        Conflict::Multiple => true,
    }
}
// C02: `None` only with no pending dependency; `Single(h)` only if every pending dependency is inside group h
pub open spec fn verdict_dep(c: Conflict, ids: IdsT, stage: int, dep: Seq<SystemId>) -> bool {
    match c {
        Conflict::None => dep.len() == 0,
        Conflict::Single(h) => h < ids[stage].len() && (forall|i: int| 0 <= i < dep.len() ==> ids[stage][h as int]@.contains(#[trigger] dep[i])),
        Conflict::Multiple => true,
    }
}
// C10: a stage is refused only for a reason: a group that conflicts / holds a dependency, or dependencies still pending
pub open spec fn verdict_fit(c: Conflict, ids: IdsT, reads: RwsT, writes: RwsT, stage: int, nr: Seq<ResourceId>, nw: Seq<ResourceId>, dep: Seq<SystemId>) -> bool {
    match c {
        Conflict::None => true,
        Conflict::Single(h) => h < ids[stage].len() && hit_at(ids, reads, writes, stage, h as int, nr, nw, dep),
        Conflict::Multiple => dep.len() != 0
            || exists|g: int| 0 <= g < ids[stage].len() && res_conflict(#[trigger] reads[stage][g]@, writes[stage][g]@, nr, nw),
    }
}
// the two halves of "a group is hit": a resource conflict (C01) / a pending dependency sits in it (C02).  The loop invariant of
// find_conflict is stated per half, so that a change to one test does not fail the other property's obligation
pub open spec fn res_at(reads: RwsT, writes: RwsT, stage: int, g: int, nr: Seq<ResourceId>, nw: Seq<ResourceId>) -> bool {
    res_conflict(reads[stage][g]@, writes[stage][g]@, nr, nw)
}
pub open spec fn dep_at(ids: IdsT, stage: int, g: int, dep: Seq<SystemId>) -> bool {
    inter(dep, ids[stage][g]@)
}
pub open spec fn acc_sound_res(c: Conflict, reads: RwsT, writes: RwsT, stage: int, nr: Seq<ResourceId>, nw: Seq<ResourceId>, n: int) -> bool {
    match c {
        Conflict::None => forall|g: int| 0 <= g < n ==> !#[trigger] res_at(reads, writes, stage, g, nr, nw),
        Conflict::Single(h) => 0 <= h < n && forall|g: int| 0 <= g < n && g != h ==> !#[trigger] res_at(reads, writes, stage, g, nr, nw),
        Conflict::Multiple => true,
    }
}
pub open spec fn acc_sound_dep(c: Conflict, ids: IdsT, stage: int, dep: Seq<SystemId>, n: int) -> bool {
    match c {
        Conflict::None => forall|g: int| 0 <= g < n ==> !#[trigger] dep_at(ids, stage, g, dep),
        Conflict::Single(h) => 0 <= h < n && forall|g: int| 0 <= g < n && g != h ==> !#[trigger] dep_at(ids, stage, g, dep),
        Conflict::Multiple => true,
    }
}
pub open spec fn acc_complete(c: Conflict, ids: IdsT, reads: RwsT, writes: RwsT, stage: int, nr: Seq<ResourceId>, nw: Seq<ResourceId>, dep: Seq<SystemId>, n: int) -> bool {
    match c {
        Conflict::None => true,
        Conflict::Single(h) => 0 <= h < n && hit_at(ids, reads, writes, stage, h as int, nr, nw, dep),
        Conflict::Multiple => exists|g: int| 0 <= g < n && #[trigger] hit_at(ids, reads, writes, stage, g, nr, nw, dep),
    }
}
pub proof fn lemma_acc_sound_iso(c: Conflict, ids: IdsT, reads: RwsT, writes: RwsT, stage: int, nr: Seq<ResourceId>, nw: Seq<ResourceId>, dep: Seq<SystemId>)
    requires acc_sound_res(c, reads, writes, stage, nr, nw, ids[stage].len() as int)
    ensures verdict_iso(c, ids, reads, writes, stage, nr, nw)
{
    let n = ids[stage].len() as int;
    match c {
        Conflict::None => {
            assert forall|g: int| 0 <= g < n implies !res_conflict(#[trigger] reads[stage][g]@, writes[stage][g]@, nr, nw) by {
                assert(!res_at(reads, writes, stage, g, nr, nw));
            }
        }
        Conflict::Single(h) => {
            assert forall|g: int| 0 <= g < n && g != h implies !res_conflict(#[trigger] reads[stage][g]@, writes[stage][g]@, nr, nw) by {
                assert(!res_at(reads, writes, stage, g, nr, nw));
            }
        }
        Conflict::Multiple => {}
    }
}
// the verdict finally returned is `c` unless the dependency test overrides it with Multiple
pub proof fn lemma_acc_sound_dep(c: Conflict, dc: bool, ids: IdsT, reads: RwsT, writes: RwsT, stage: int, nr: Seq<ResourceId>, nw: Seq<ResourceId>, dep: Seq<SystemId>)
    requires
        acc_sound_dep(c, ids, stage, dep, ids[stage].len() as int),
        dc ==> exists|g: int| 0 <= g < ids[stage].len() && #[trigger] dep_at(ids, stage, g, dep),
    ensures
        !((dc && dep.len() > 1) || (!dc && dep.len() != 0)) ==> verdict_dep(c, ids, stage, dep)
{
    let n = ids[stage].len() as int;
    if !((dc && dep.len() > 1) || (!dc && dep.len() != 0)) {
        if dep.len() != 0 {
            let g = choose|g: int| 0 <= g < n && #[trigger] dep_at(ids, stage, g, dep);
            match c {
                Conflict::None => { assert(false); }
                Conflict::Single(h) => {
                    assert(g == h);
                    let (a, b) = choose|a: int, b: int| 0 <= a < dep.len() && 0 <= b < ids[stage][g]@.len() && dep[a] == ids[stage][g]@[b];
                    assert forall|i: int| 0 <= i < dep.len() implies ids[stage][h as int]@.contains(#[trigger] dep[i]) by {
                        assert(i == 0 && a == 0);
                        assert(ids[stage][h as int]@[b] == dep[i]);
                    }
                }
                Conflict::Multiple => {}
            }
        }
    }
}
pub proof fn lemma_acc_complete(c: Conflict, dc: bool, ids: IdsT, reads: RwsT, writes: RwsT, stage: int, nr: Seq<ResourceId>, nw: Seq<ResourceId>, dep: Seq<SystemId>)
    requires
        acc_complete(c, ids, reads, writes, stage, nr, nw, dep, ids[stage].len() as int),
    ensures
        !((dc && dep.len() > 1) || (!dc && dep.len() != 0)) ==> verdict_fit(c, ids, reads, writes, stage, nr, nw, dep),
{
    let n = ids[stage].len() as int;
    if !((dc && dep.len() > 1) || (!dc && dep.len() != 0)) {
        match c {
            Conflict::Multiple => {
                if dep.len() == 0 {
                    let g = choose|g: int| 0 <= g < n && #[trigger] hit_at(ids, reads, writes, stage, g, nr, nw, dep);
                    assert(!inter(dep, ids[stage][g]@));
                    assert(res_conflict(reads[stage][g]@, writes[stage][g]@, nr, nw));
                }
            }
            _ => {}
        }
    }
}
// ---- locating ids
pub open spec fn in_stage(ids: IdsT, stage: int, d: SystemId) -> bool {
    exists|g: int, p: int| 0 <= g < ids[stage].len() && 0 <= p < ids[stage][g]@.len() && #[trigger] ids[stage][g]@[p] == d
}
// d occurs in stage `stage` at a position visited before (a, b) in the walk over groups, then members
pub open spec fn in_prefix(ids: IdsT, stage: int, a: int, b: int, d: SystemId) -> bool {
    exists|g: int, p: int| 0 <= g < ids[stage].len() && 0 <= p < ids[stage][g]@.len() && (g < a || (g == a && p < b)) && #[trigger] ids[stage][g]@[p] == d
}
pub proof fn lemma_seq_remove<T>(s: Seq<T>, k: int)
    requires 0 <= k < s.len()
    ensures
        forall|x: T| #[trigger] s.remove(k).contains(x) ==> s.contains(x),
        forall|x: T| s.contains(x) && x != s[k] ==> #[trigger] s.remove(k).contains(x),
        forall|i: int| 0 <= i < k ==> #[trigger] s.remove(k)[i] == s[i],
        forall|i: int| k <= i < s.len() - 1 ==> #[trigger] s.remove(k)[i] == s[i + 1],
        s.remove(k).len() == s.len() - 1,
{
    let r = s.remove(k);
    assert forall|x: T| #[trigger] r.contains(x) implies s.contains(x) by {
        let i = choose|i: int| 0 <= i < r.len() && r[i] == x;
        if i < k { assert(s[i] == x); } else { assert(s[i + 1] == x); }
    }
    assert forall|x: T| s.contains(x) && x != s[k] implies #[trigger] r.contains(x) by {
        let i = choose|i: int| 0 <= i < s.len() && s[i] == x;
        if i < k { assert(r[i] == x); } else { assert(r[i - 1] == x); }
    }
}
// ---- the builder's tables
impl StagesBuilder {
    pub open spec fn nstages(&self) -> int { self.stages@.len() as int }
    // C04: the five tables are kept in lock-step (same shape everywhere), groups are non-empty and within capacity
    pub open spec fn lockstep(&self) -> bool {
        &&& self.ids@.len() == self.stages@.len()
        &&& self.reads@.len() == self.stages@.len()
        &&& self.writes@.len() == self.stages@.len()
        &&& self.running_time@.len() == self.stages@.len()
        &&& self.barrier <= self.stages@.len()
        &&& forall|s: int| 0 <= s < self.nstages() ==> {
            &&& #[trigger] self.ids@[s]@.len() == self.stages@[s].groups@.len()
            &&& self.reads@[s]@.len() == self.ids@[s]@.len()
            &&& self.writes@[s]@.len() == self.ids@[s]@.len()
            &&& self.running_time@[s]@.len() == self.ids@[s]@.len()
            &&& self.ids@[s]@.len() >= 1
        }
        &&& forall|s: int, g: int| #![trigger self.ids@[s]@[g]] #![trigger self.running_time@[s]@[g]] #![trigger self.stages@[s].groups@[g]]
            0 <= s < self.nstages() && 0 <= g < self.ids@[s]@.len() ==> {
            &&& self.ids@[s]@[g]@.len() == self.stages@[s].groups@[g]@.len()
            &&& 1 <= self.ids@[s]@[g]@.len() <= MAX_SYSTEMS_PER_GROUP
            &&& self.running_time@[s]@[g] as int <= 5 * self.ids@[s]@[g]@.len()
        }
    }
    // id d sits in some stage t with lo <= t < hi
    pub open spec fn located_in(&self, d: SystemId, lo: int, hi: int) -> bool {
        exists|t: int| lo <= t < hi && 0 <= t < self.ids@.len() && #[trigger] in_stage(self.ids@, t, d)
    }
    // C10: stage t may be passed over only for a reason: a group whose accumulated access conflicts with the new
    // system, or a dependency of the new system located in t or later
    pub open spec fn skip_justified(&self, t: int, nr: Seq<ResourceId>, nw: Seq<ResourceId>, dep0: Seq<SystemId>) -> bool {
        (exists|g: int| 0 <= g < self.ids@[t]@.len() && res_conflict(#[trigger] self.reads@[t]@[g]@, self.writes@[t]@[g]@, nr, nw))
        || (exists|i: int| 0 <= i < dep0.len() && self.located_in(#[trigger] dep0[i], t, self.ids@.len() as int))
    }
    pub open spec fn target_stage(&self, r: InsertionTarget) -> int {
        match r { InsertionTarget::Stage(s) => s as int, InsertionTarget::Group(s, _) => s as int, InsertionTarget::NewStage => self.nstages() }
    }
    pub open spec fn target_safe(&self, r: InsertionTarget) -> bool {
        match r {
            InsertionTarget::Stage(s) => s < self.nstages(),
            InsertionTarget::Group(s, g) => s < self.nstages() && g < self.ids@[s as int]@.len() && self.ids@[s as int]@[g as int]@.len() < MAX_SYSTEMS_PER_GROUP,
            InsertionTarget::NewStage => true,
        }
    }
    // C01: the chosen slot is compatible with every *other* group of the chosen stage
    pub open spec fn target_iso(&self, r: InsertionTarget, nr: Seq<ResourceId>, nw: Seq<ResourceId>) -> bool {
        match r {
            InsertionTarget::Stage(s) => forall|g: int| 0 <= g < self.ids@[s as int]@.len() ==> !res_conflict(#[trigger] self.reads@[s as int]@[g]@, self.writes@[s as int]@[g]@, nr, nw),
            InsertionTarget::Group(s, g) => forall|h: int| 0 <= h < self.ids@[s as int]@.len() && h != g ==> !res_conflict(#[trigger] self.reads@[s as int]@[h]@, self.writes@[s as int]@[h]@, nr, nw),
            InsertionTarget::NewStage => true,
        }
    }
    // C02: every dependency sits in an earlier stage, or in the group that is joined (the new system is appended behind it)
    pub open spec fn target_dep(&self, r: InsertionTarget, dep0: Seq<SystemId>) -> bool {
        match r {
            InsertionTarget::Stage(s) => forall|i: int| 0 <= i < dep0.len() ==> self.located_in(#[trigger] dep0[i], 0, s as int),
            InsertionTarget::Group(s, g) => forall|i: int| 0 <= i < dep0.len() ==> self.located_in(#[trigger] dep0[i], 0, s as int) || self.ids@[s as int]@[g as int]@.contains(dep0[i]),
            InsertionTarget::NewStage => true,
        }
    }
    pub open spec fn found_target(found: Option<(usize, Conflict)>) -> InsertionTarget {
        match found {
            Some((s, Conflict::None)) => InsertionTarget::Stage(s),
            Some((s, Conflict::Single(g))) => InsertionTarget::Group(s, g),
            _ => InsertionTarget::NewStage,
        }
    }
    pub proof fn lemma_located_split(&self, d: SystemId, lo: int, mid: int, hi: int)
        requires lo <= mid <= hi
        ensures self.located_in(d, lo, hi) <==> self.located_in(d, lo, mid) || self.located_in(d, mid, hi)
    {
        if self.located_in(d, lo, hi) {
            let t = choose|t: int| lo <= t < hi && 0 <= t < self.ids@.len() && #[trigger] in_stage(self.ids@, t, d);
            if t < mid { assert(self.located_in(d, lo, mid)); } else { assert(self.located_in(d, mid, hi)); }
        }
    }
    pub proof fn lemma_located_one(&self, d: SystemId, t: int)
        requires 0 <= t < self.ids@.len()
        ensures self.located_in(d, t, t + 1) <==> in_stage(self.ids@, t, d)
    {
        if in_stage(self.ids@, t, d) { assert(self.located_in(d, t, t + 1)); }
    }
    // C10, one step of the scan: a stage that was refused (verdict not None) is passed over for a reason
    pub proof fn lemma_skip(&self, t: int, c: Conflict, nr: Seq<ResourceId>, nw: Seq<ResourceId>, dep0: Seq<SystemId>, pending: Seq<SystemId>)
        requires
            self.lockstep(), 0 <= t < self.nstages(), !(c is None),
            verdict_fit(c, self.ids@, self.reads@, self.writes@, t, nr, nw, pending),
            forall|i: int| 0 <= i < pending.len() ==> dep0.contains(#[trigger] pending[i]),
            forall|i: int| 0 <= i < pending.len() ==> !self.located_in(#[trigger] pending[i], 0, t),
            forall|i: int| 0 <= i < dep0.len() ==> self.located_in(#[trigger] dep0[i], 0, self.nstages()),
        ensures self.skip_justified(t, nr, nw, dep0)
    {
        let n = self.nstages();
        match c {
            Conflict::None => {}
            Conflict::Single(h) => {
                if !res_conflict(self.reads@[t]@[h as int]@, self.writes@[t]@[h as int]@, nr, nw) {
                    let (a, b) = choose|a: int, b: int| 0 <= a < pending.len() && 0 <= b < self.ids@[t]@[h as int]@.len() && pending[a] == self.ids@[t]@[h as int]@[b];
                    let d = pending[a];
                    assert(self.ids@[t]@[h as int]@[b] == d);
                    assert(in_stage(self.ids@, t, d));
                    assert(self.located_in(d, t, n));
                    let j = choose|j: int| 0 <= j < dep0.len() && dep0[j] == d;
                    assert(self.located_in(dep0[j], t, n));
                }
            }
            Conflict::Multiple => {
                if pending.len() != 0 {
                    let d = pending[0];
                    let j = choose|j: int| 0 <= j < dep0.len() && dep0[j] == d;
                    self.lemma_located_split(d, 0, t, n);
                    assert(self.located_in(dep0[j], t, n));
                }
            }
        }
    }
}
// ---- the step relation of `insert` (C04: exactly one slot of each of the five tables receives the new system)
impl StagesBuilder {
    pub open spec fn ngroups(&self, s: int) -> int { self.ids@[s]@.len() as int }
    // the slot (s, g) of `self` does not exist yet
    pub open spec fn fresh_slot(&self, s: int, g: int) -> bool { s == self.nstages() || (0 <= s < self.nstages() && g == self.ngroups(s)) }
    pub open spec fn slot_ids(&self, s: int, g: int) -> Seq<SystemId> { if self.fresh_slot(s, g) { Seq::empty() } else { self.ids@[s]@[g]@ } }
    pub open spec fn slot_reads(&self, s: int, g: int) -> Seq<ResourceId> { if self.fresh_slot(s, g) { Seq::empty() } else { self.reads@[s]@[g]@ } }
    pub open spec fn slot_writes(&self, s: int, g: int) -> Seq<ResourceId> { if self.fresh_slot(s, g) { Seq::empty() } else { self.writes@[s]@[g]@ } }
    pub open spec fn slot_time(&self, s: int, g: int) -> int { if self.fresh_slot(s, g) { 0 } else { self.running_time@[s]@[g] as int } }
    pub open spec fn slot_boxes(&self, s: int, g: int) -> Seq<SysBox> { if self.fresh_slot(s, g) { Seq::empty() } else { self.stages@[s].groups@[g]@ } }

    // `post` is `self` with one system (id, reads rs, writes ws, time t) appended to slot (s, g); everything else unchanged
    pub open spec fn placed(&self, post: &StagesBuilder, s: int, g: int, id: SystemId, rs: Seq<ResourceId>, ws: Seq<ResourceId>, t: int) -> bool {
        &&& post.barrier == self.barrier
        &&& 0 <= s <= self.nstages()
        &&& (if s == self.nstages() { g == 0 } else { 0 <= g <= self.ngroups(s) })
        &&& post.lockstep()
        &&& post.nstages() == (if s == self.nstages() { self.nstages() + 1 } else { self.nstages() })
        // stages other than s: untouched
        &&& forall|u: int| 0 <= u < self.nstages() && u != s ==> {
            &&& #[trigger] post.ids@[u] == self.ids@[u]
            &&& post.reads@[u] == self.reads@[u]
            &&& post.writes@[u] == self.writes@[u]
            &&& post.running_time@[u] == self.running_time@[u]
            &&& post.stages@[u] == self.stages@[u]
        }
        // stage s: same groups plus possibly one new one at the end; groups other than g untouched
        &&& post.ngroups(s) == (if self.fresh_slot(s, g) { g + 1 } else { self.ngroups(s) })
        &&& forall|h: int| 0 <= h < post.ngroups(s) && h != g ==> {
            &&& #[trigger] post.ids@[s]@[h] == self.ids@[s]@[h]
            &&& post.reads@[s]@[h] == self.reads@[s]@[h]
            &&& post.writes@[s]@[h] == self.writes@[s]@[h]
            &&& post.running_time@[s]@[h] == self.running_time@[s]@[h]
            &&& post.stages@[s].groups@[h] == self.stages@[s].groups@[h]
        }
        // slot (s, g): one element appended to each table
        &&& post.ids@[s]@[g]@ == self.slot_ids(s, g).push(id)
        &&& post.reads@[s]@[g]@ == self.slot_reads(s, g) + rs
        &&& post.writes@[s]@[g]@ == self.slot_writes(s, g) + ws
        &&& post.running_time@[s]@[g] as int == self.slot_time(s, g) + t
        &&& post.stages@[s].groups@[g]@.len() == self.slot_boxes(s, g).len() + 1
        &&& post.stages@[s].groups@[g]@.subrange(0, self.slot_boxes(s, g).len() as int) == self.slot_boxes(s, g)
    }
}
impl StagesBuilder {
    // C01 (layout form): the groups of one stage are pairwise access-compatible
    pub open spec fn isolated(&self) -> bool {
        forall|s: int, g: int, h: int| 0 <= s < self.nstages() && 0 <= g < self.ngroups(s) && 0 <= h < self.ngroups(s) && g != h ==>
            !res_conflict(#[trigger] self.reads@[s]@[g]@, self.writes@[s]@[g]@, #[trigger] self.reads@[s]@[h]@, self.writes@[s]@[h]@)
    }
    // accumulated access of a group covers what each member declared (C01: nothing declared is forgotten)
    pub open spec fn covers_sup(&self) -> bool {
        &&& forall|s: int, g: int, p: int, x: ResourceId| 0 <= s < self.nstages() && 0 <= g < self.ngroups(s) && 0 <= p < self.stages@[s].groups@[g]@.len()
                && #[trigger] self.stages@[s].groups@[g]@[p].decl_reads().contains(x) ==> self.reads@[s]@[g]@.contains(x)
        &&& forall|s: int, g: int, p: int, x: ResourceId| 0 <= s < self.nstages() && 0 <= g < self.ngroups(s) && 0 <= p < self.stages@[s].groups@[g]@.len()
                && #[trigger] self.stages@[s].groups@[g]@[p].decl_writes().contains(x) ==> self.writes@[s]@[g]@.contains(x)
    }
    // ... and contains nothing that no member declared (C10: a group conflict is a conflict with a registered system)
    pub open spec fn covers_sub(&self) -> bool {
        &&& forall|s: int, g: int, x: ResourceId| 0 <= s < self.nstages() && 0 <= g < self.ngroups(s) && #[trigger] self.reads@[s]@[g]@.contains(x)
                ==> exists|p: int| 0 <= p < self.stages@[s].groups@[g]@.len() && #[trigger] self.stages@[s].groups@[g]@[p].decl_reads().contains(x)
        &&& forall|s: int, g: int, x: ResourceId| 0 <= s < self.nstages() && 0 <= g < self.ngroups(s) && #[trigger] self.writes@[s]@[g]@.contains(x)
                ==> exists|p: int| 0 <= p < self.stages@[s].groups@[g]@.len() && #[trigger] self.stages@[s].groups@[g]@[p].decl_writes().contains(x)
    }
    pub open spec fn placed_box(&self, post: &StagesBuilder, s: int, g: int, idn: Ident) -> bool {
        post.stages@[s].groups@[g]@.last().ident() == idn
    }
    pub open spec fn placed_dep(&self, s: int, g: int, dep: Seq<SystemId>) -> bool {
        forall|i: int| 0 <= i < dep.len() ==> self.located_in(#[trigger] dep[i], 0, s) || self.slot_ids(s, g).contains(dep[i])
    }
    pub open spec fn placed_fit(&self, s: int, rs: Seq<ResourceId>, ws: Seq<ResourceId>, dep: Seq<SystemId>) -> bool {
        forall|t: int| self.barrier <= t < s ==> #[trigger] self.skip_justified(t, rs, ws, dep)
    }
}
pub proof fn lemma_inter_concat<T>(a: Seq<T>, b: Seq<T>, c: Seq<T>)
    ensures inter(a, b + c) <==> inter(a, b) || inter(a, c), inter(b + c, a) <==> inter(b, a) || inter(c, a)
{
    if inter(a, b + c) {
        let (i, j) = choose|i: int, j: int| 0 <= i < a.len() && 0 <= j < (b + c).len() && a[i] == (b + c)[j];
        if j < b.len() { assert(a[i] == b[j]); } else { assert(a[i] == c[j - b.len()]); }
    }
    if inter(a, b) { let (i, j) = choose|i: int, j: int| 0 <= i < a.len() && 0 <= j < b.len() && a[i] == b[j]; assert((b + c)[j] == a[i]); }
    if inter(a, c) { let (i, j) = choose|i: int, j: int| 0 <= i < a.len() && 0 <= j < c.len() && a[i] == c[j]; assert((b + c)[j + b.len()] == a[i]); }
    if inter(b + c, a) {
        let (j, i) = choose|j: int, i: int| 0 <= j < (b + c).len() && 0 <= i < a.len() && (b + c)[j] == a[i];
        if j < b.len() { assert(b[j] == a[i]); } else { assert(c[j - b.len()] == a[i]); }
    }
    if inter(b, a) { let (j, i) = choose|j: int, i: int| 0 <= j < b.len() && 0 <= i < a.len() && b[j] == a[i]; assert((b + c)[j] == a[i]); }
    if inter(c, a) { let (j, i) = choose|j: int, i: int| 0 <= j < c.len() && 0 <= i < a.len() && c[j] == a[i]; assert((b + c)[j + b.len()] == a[i]); }
}
pub proof fn lemma_inter_sym<T>(a: Seq<T>, b: Seq<T>)
    ensures inter(a, b) <==> inter(b, a)
{
    if inter(a, b) { let (i, j) = choose|i: int, j: int| 0 <= i < a.len() && 0 <= j < b.len() && a[i] == b[j]; assert(b[j] == a[i]); }
    if inter(b, a) { let (i, j) = choose|i: int, j: int| 0 <= i < b.len() && 0 <= j < a.len() && b[i] == a[j]; assert(a[j] == b[i]); }
}
pub proof fn lemma_inter_empty<T>(a: Seq<T>)
    ensures !inter(a, Seq::<T>::empty()), !inter(Seq::<T>::empty(), a)
{}
// res_conflict is symmetric in the two systems and distributes over accumulating access
pub proof fn lemma_res_conflict_sym(r1: Seq<ResourceId>, w1: Seq<ResourceId>, r2: Seq<ResourceId>, w2: Seq<ResourceId>)
    ensures res_conflict(r1, w1, r2, w2) <==> res_conflict(r2, w2, r1, w1)
{
    lemma_inter_concat(w2, w1, r1); lemma_inter_concat(w1, w2, r2);
    lemma_inter_sym(w2, w1); lemma_inter_sym(w2, r1); lemma_inter_sym(r2, w1);
}
pub proof fn lemma_res_conflict_concat(r: Seq<ResourceId>, w: Seq<ResourceId>, r1: Seq<ResourceId>, w1: Seq<ResourceId>, r2: Seq<ResourceId>, w2: Seq<ResourceId>)
    ensures res_conflict(r, w, r1 + r2, w1 + w2) <==> res_conflict(r, w, r1, w1) || res_conflict(r, w, r2, w2)
{
    lemma_inter_concat(w + r, w1, w2); lemma_inter_concat(w, r1, r2);
}
pub proof fn lemma_res_conflict_empty(r: Seq<ResourceId>, w: Seq<ResourceId>)
    ensures !res_conflict(r, w, Seq::empty(), Seq::empty()), !res_conflict(Seq::empty(), Seq::empty(), r, w)
{
    lemma_res_conflict_sym(r, w, Seq::empty(), Seq::empty());
}
impl StagesBuilder {
    // C01, inductive step: appending (rs, ws) to slot (s, g) keeps the groups of every stage pairwise compatible,
    // provided (rs, ws) is compatible with every other group of stage s
    pub proof fn lemma_insert_iso(&self, post: &StagesBuilder, s: int, g: int, id: SystemId, rs: Seq<ResourceId>, ws: Seq<ResourceId>, t: int)
        requires
            self.lockstep(), self.isolated(), self.placed(post, s, g, id, rs, ws, t),
            s < self.nstages() ==> forall|h: int| 0 <= h < self.ngroups(s) && h != g ==> !res_conflict(#[trigger] self.reads@[s]@[h]@, self.writes@[s]@[h]@, rs, ws),
        ensures post.isolated()
    {
        assert forall|s2: int, g2: int, h2: int| 0 <= s2 < post.nstages() && 0 <= g2 < post.ngroups(s2) && 0 <= h2 < post.ngroups(s2) && g2 != h2 implies
            !res_conflict(#[trigger] post.reads@[s2]@[g2]@, post.writes@[s2]@[g2]@, #[trigger] post.reads@[s2]@[h2]@, post.writes@[s2]@[h2]@) by
        {
            if s2 != s {
                assert(post.ids@[s2] == self.ids@[s2]);
                assert(!res_conflict(self.reads@[s2]@[g2]@, self.writes@[s2]@[g2]@, self.reads@[s2]@[h2]@, self.writes@[s2]@[h2]@));
            } else if g2 != g && h2 != g {
                assert(post.ids@[s]@[g2] == self.ids@[s]@[g2]);
                assert(post.ids@[s]@[h2] == self.ids@[s]@[h2]);
                assert(!res_conflict(self.reads@[s]@[g2]@, self.writes@[s]@[g2]@, self.reads@[s]@[h2]@, self.writes@[s]@[h2]@));
            } else {
                // one of the two is the slot that received the new system; o is the other group
                let o = if g2 == g { h2 } else { g2 };
                assert(post.ids@[s]@[o] == self.ids@[s]@[o]);
                let ro = self.reads@[s]@[o]@; let wo = self.writes@[s]@[o]@;
                let rg = self.slot_reads(s, g); let wg = self.slot_writes(s, g);
                assert(s < self.nstages());
                assert(!res_conflict(ro, wo, rs, ws));
                if self.fresh_slot(s, g) {
                    lemma_res_conflict_empty(ro, wo);
                } else {
                    assert(!res_conflict(self.reads@[s]@[o]@, self.writes@[s]@[o]@, self.reads@[s]@[g]@, self.writes@[s]@[g]@));
                }
                assert(!res_conflict(ro, wo, rg, wg));
                lemma_res_conflict_concat(ro, wo, rg, wg, rs, ws);
                lemma_res_conflict_sym(ro, wo, rg + rs, wg + ws);
            }
        }
    }
    // the new system's declaration (dr, dw) is recorded in its group (rs is dr up to order and duplicates)
    pub proof fn lemma_insert_covers_sup(&self, post: &StagesBuilder, s: int, g: int, id: SystemId, rs: Seq<ResourceId>, ws: Seq<ResourceId>, t: int, dr: Seq<ResourceId>, dw: Seq<ResourceId>)
        requires
            self.lockstep(), self.covers_sup(), self.placed(post, s, g, id, rs, ws, t), post.stages@[s].groups@[g]@.last().decl_reads() == dr, post.stages@[s].groups@[g]@.last().decl_writes() == dw,
            forall|x: ResourceId| dr.contains(x) ==> rs.contains(x), forall|x: ResourceId| dw.contains(x) ==> ws.contains(x),
        ensures post.covers_sup()
    {
        let n = self.slot_boxes(s, g).len() as int;
        assert forall|s2: int, g2: int, p: int, x: ResourceId| 0 <= s2 < post.nstages() && 0 <= g2 < post.ngroups(s2) && 0 <= p < post.stages@[s2].groups@[g2]@.len()
            && #[trigger] post.stages@[s2].groups@[g2]@[p].decl_reads().contains(x) implies post.reads@[s2]@[g2]@.contains(x) by
        {
            let b = post.stages@[s2].groups@[g2]@[p];
            if s2 != s {
                assert(post.ids@[s2] == self.ids@[s2]);
                assert(self.stages@[s2].groups@[g2]@[p].decl_reads().contains(x));
            } else if g2 != g {
                assert(post.ids@[s]@[g2] == self.ids@[s]@[g2]);
                assert(self.stages@[s2].groups@[g2]@[p].decl_reads().contains(x));
            } else if p < n {
                assert(post.stages@[s].groups@[g]@.subrange(0, n)[p] == b);
                assert(self.stages@[s].groups@[g]@[p].decl_reads().contains(x));
                let i = choose|i: int| 0 <= i < self.reads@[s]@[g]@.len() && self.reads@[s]@[g]@[i] == x;
                assert((self.slot_reads(s, g) + rs)[i] == x);
            } else {
                assert(b == post.stages@[s].groups@[g]@.last());
                let i = choose|i: int| 0 <= i < rs.len() && rs[i] == x;
                assert((self.slot_reads(s, g) + rs)[self.slot_reads(s, g).len() + i] == x);
            }
        }
        assert forall|s2: int, g2: int, p: int, x: ResourceId| 0 <= s2 < post.nstages() && 0 <= g2 < post.ngroups(s2) && 0 <= p < post.stages@[s2].groups@[g2]@.len()
            && #[trigger] post.stages@[s2].groups@[g2]@[p].decl_writes().contains(x) implies post.writes@[s2]@[g2]@.contains(x) by
        {
            let b = post.stages@[s2].groups@[g2]@[p];
            if s2 != s {
                assert(post.ids@[s2] == self.ids@[s2]);
                assert(self.stages@[s2].groups@[g2]@[p].decl_writes().contains(x));
            } else if g2 != g {
                assert(post.ids@[s]@[g2] == self.ids@[s]@[g2]);
                assert(self.stages@[s2].groups@[g2]@[p].decl_writes().contains(x));
            } else if p < n {
                assert(post.stages@[s].groups@[g]@.subrange(0, n)[p] == b);
                assert(self.stages@[s].groups@[g]@[p].decl_writes().contains(x));
                let i = choose|i: int| 0 <= i < self.writes@[s]@[g]@.len() && self.writes@[s]@[g]@[i] == x;
                assert((self.slot_writes(s, g) + ws)[i] == x);
            } else {
                assert(b == post.stages@[s].groups@[g]@.last());
                let i = choose|i: int| 0 <= i < ws.len() && ws[i] == x;
                assert((self.slot_writes(s, g) + ws)[self.slot_writes(s, g).len() + i] == x);
            }
        }
    }
    // ... and nothing is recorded that no member declared
    pub proof fn lemma_insert_covers_sub(&self, post: &StagesBuilder, s: int, g: int, id: SystemId, rs: Seq<ResourceId>, ws: Seq<ResourceId>, t: int, dr: Seq<ResourceId>, dw: Seq<ResourceId>)
        requires
            self.lockstep(), self.covers_sub(), self.placed(post, s, g, id, rs, ws, t), post.stages@[s].groups@[g]@.last().decl_reads() == dr, post.stages@[s].groups@[g]@.last().decl_writes() == dw,
            forall|x: ResourceId| rs.contains(x) ==> dr.contains(x), forall|x: ResourceId| ws.contains(x) ==> dw.contains(x),
        ensures post.covers_sub()
    {
        let n = self.slot_boxes(s, g).len() as int;
        let last = post.stages@[s].groups@[g]@.len() - 1;
        assert forall|s2: int, g2: int, x: ResourceId| 0 <= s2 < post.nstages() && 0 <= g2 < post.ngroups(s2) && #[trigger] post.reads@[s2]@[g2]@.contains(x)
            implies exists|p: int| 0 <= p < post.stages@[s2].groups@[g2]@.len() && #[trigger] post.stages@[s2].groups@[g2]@[p].decl_reads().contains(x) by
        {
            if s2 != s {
                assert(post.ids@[s2] == self.ids@[s2]);
                assert(self.reads@[s2]@[g2]@.contains(x));
            } else if g2 != g {
                assert(post.ids@[s]@[g2] == self.ids@[s]@[g2]);
                assert(self.reads@[s2]@[g2]@.contains(x));
            } else {
                let i = choose|i: int| 0 <= i < (self.slot_reads(s, g) + rs).len() && (self.slot_reads(s, g) + rs)[i] == x;
                if i < self.slot_reads(s, g).len() {
                    assert(self.reads@[s]@[g]@[i] == x);
                    assert(self.reads@[s]@[g]@.contains(x));
                    let p = choose|p: int| 0 <= p < self.stages@[s].groups@[g]@.len() && #[trigger] self.stages@[s].groups@[g]@[p].decl_reads().contains(x);
                    assert(post.stages@[s].groups@[g]@.subrange(0, n)[p] == self.stages@[s].groups@[g]@[p]);
                    assert(post.stages@[s].groups@[g]@[p].decl_reads().contains(x));
                } else {
                    assert(rs[i - self.slot_reads(s, g).len()] == x);
                    assert(post.stages@[s].groups@[g]@[last].decl_reads().contains(x));
                }
            }
        }
        assert forall|s2: int, g2: int, x: ResourceId| 0 <= s2 < post.nstages() && 0 <= g2 < post.ngroups(s2) && #[trigger] post.writes@[s2]@[g2]@.contains(x)
            implies exists|p: int| 0 <= p < post.stages@[s2].groups@[g2]@.len() && #[trigger] post.stages@[s2].groups@[g2]@[p].decl_writes().contains(x) by
        {
            if s2 != s {
                assert(post.ids@[s2] == self.ids@[s2]);
                assert(self.writes@[s2]@[g2]@.contains(x));
            } else if g2 != g {
                assert(post.ids@[s]@[g2] == self.ids@[s]@[g2]);
                assert(self.writes@[s2]@[g2]@.contains(x));
            } else {
                let i = choose|i: int| 0 <= i < (self.slot_writes(s, g) + ws).len() && (self.slot_writes(s, g) + ws)[i] == x;
                if i < self.slot_writes(s, g).len() {
                    assert(self.writes@[s]@[g]@[i] == x);
                    assert(self.writes@[s]@[g]@.contains(x));
                    let p = choose|p: int| 0 <= p < self.stages@[s].groups@[g]@.len() && #[trigger] self.stages@[s].groups@[g]@[p].decl_writes().contains(x);
                    assert(post.stages@[s].groups@[g]@.subrange(0, n)[p] == self.stages@[s].groups@[g]@[p]);
                    assert(post.stages@[s].groups@[g]@[p].decl_writes().contains(x));
                } else {
                    assert(ws[i - self.slot_writes(s, g).len()] == x);
                    assert(post.stages@[s].groups@[g]@[last].decl_writes().contains(x));
                }
            }
        }
    }
}
// ---- C07: everything a builder has accumulated
pub open spec fn table_has(t: RwsT, x: ResourceId) -> bool {
    exists|s: int, g: int, i: int| 0 <= s < t.len() && 0 <= g < t[s]@.len() && 0 <= i < t[s]@[g]@.len() && #[trigger] t[s]@[g]@[i] == x
}
// x occurs at a position lexicographically before (a, b, c)
pub open spec fn table_has_before(t: RwsT, a: int, b: int, c: int, x: ResourceId) -> bool {
    exists|s: int, g: int, i: int| 0 <= s < t.len() && 0 <= g < t[s]@.len() && 0 <= i < t[s]@[g]@.len() && #[trigger] t[s]@[g]@[i] == x
        && (s < a || (s == a && (g < b || (g == b && i < c))))
}
pub proof fn lemma_before_step(t: RwsT, a: int, b: int, c: int, x: ResourceId)
    requires 0 <= a < t.len(), 0 <= b < t[a]@.len(), 0 <= c < t[a]@[b]@.len()
    ensures table_has_before(t, a, b, c + 1, x) <==> table_has_before(t, a, b, c, x) || x == t[a]@[b]@[c]
{
    if table_has_before(t, a, b, c + 1, x) {
        let (s, g, i) = choose|s: int, g: int, i: int| 0 <= s < t.len() && 0 <= g < t[s]@.len() && 0 <= i < t[s]@[g]@.len() && #[trigger] t[s]@[g]@[i] == x
            && (s < a || (s == a && (g < b || (g == b && i < c + 1))));
        if !(s == a && g == b && i == c) { assert(t[s]@[g]@[i] == x); assert(table_has_before(t, a, b, c, x)); }
    }
    if x == t[a]@[b]@[c] { assert(t[a]@[b]@[c] == x); }
    if table_has_before(t, a, b, c, x) {
        let (s, g, i) = choose|s: int, g: int, i: int| 0 <= s < t.len() && 0 <= g < t[s]@.len() && 0 <= i < t[s]@[g]@.len() && #[trigger] t[s]@[g]@[i] == x
            && (s < a || (s == a && (g < b || (g == b && i < c))));
        assert(t[s]@[g]@[i] == x);
    }
}
pub proof fn lemma_before_group_end(t: RwsT, a: int, b: int, x: ResourceId)
    requires 0 <= a < t.len(), 0 <= b < t[a]@.len()
    ensures table_has_before(t, a, b, t[a]@[b]@.len() as int, x) <==> table_has_before(t, a, b + 1, 0, x)
{
    if table_has_before(t, a, b, t[a]@[b]@.len() as int, x) {
        let (s, g, i) = choose|s: int, g: int, i: int| 0 <= s < t.len() && 0 <= g < t[s]@.len() && 0 <= i < t[s]@[g]@.len() && #[trigger] t[s]@[g]@[i] == x
            && (s < a || (s == a && (g < b || (g == b && i < t[a]@[b]@.len()))));
        assert(t[s]@[g]@[i] == x);
    }
    if table_has_before(t, a, b + 1, 0, x) {
        let (s, g, i) = choose|s: int, g: int, i: int| 0 <= s < t.len() && 0 <= g < t[s]@.len() && 0 <= i < t[s]@[g]@.len() && #[trigger] t[s]@[g]@[i] == x
            && (s < a || (s == a && (g < b + 1 || (g == b + 1 && i < 0))));
        assert(t[s]@[g]@[i] == x);
    }
}
pub proof fn lemma_before_stage_end(t: RwsT, a: int, x: ResourceId)
    requires 0 <= a < t.len()
    ensures table_has_before(t, a, t[a]@.len() as int, 0, x) <==> table_has_before(t, a + 1, 0, 0, x)
{
    if table_has_before(t, a, t[a]@.len() as int, 0, x) {
        let (s, g, i) = choose|s: int, g: int, i: int| 0 <= s < t.len() && 0 <= g < t[s]@.len() && 0 <= i < t[s]@[g]@.len() && #[trigger] t[s]@[g]@[i] == x
            && (s < a || (s == a && (g < t[a]@.len() || (g == t[a]@.len() && i < 0))));
        assert(t[s]@[g]@[i] == x);
    }
    if table_has_before(t, a + 1, 0, 0, x) {
        let (s, g, i) = choose|s: int, g: int, i: int| 0 <= s < t.len() && 0 <= g < t[s]@.len() && 0 <= i < t[s]@[g]@.len() && #[trigger] t[s]@[g]@[i] == x
            && (s < a + 1 || (s == a + 1 && (g < 0 || (g == 0 && i < 0))));
        assert(t[s]@[g]@[i] == x);
    }
}
pub proof fn lemma_before_all(t: RwsT, x: ResourceId)
    ensures table_has_before(t, t.len() as int, 0, 0, x) <==> table_has(t, x), !table_has_before(t, 0, 0, 0, x)
{
    if table_has(t, x) {
        let (s, g, i) = choose|s: int, g: int, i: int| 0 <= s < t.len() && 0 <= g < t[s]@.len() && 0 <= i < t[s]@[g]@.len() && #[trigger] t[s]@[g]@[i] == x;
        assert(t[s]@[g]@[i] == x);
    }
}

pub proof fn lemma_concat_contains<T>(a: Seq<T>, b: Seq<T>)
    ensures forall|x: T| #![trigger (a + b).contains(x)] #![trigger a.contains(x)] #![trigger b.contains(x)] (a + b).contains(x) <==> a.contains(x) || b.contains(x)
{
    assert forall|x: T| #![trigger (a + b).contains(x)] #![trigger a.contains(x)] #![trigger b.contains(x)] (a + b).contains(x) <==> a.contains(x) || b.contains(x) by {
        if (a + b).contains(x) {
            let i = choose|i: int| 0 <= i < (a + b).len() && (a + b)[i] == x;
            if i < a.len() { assert(a[i] == x); } else { assert(b[i - a.len()] == x); }
        }
        if a.contains(x) { let i = choose|i: int| 0 <= i < a.len() && a[i] == x; assert((a + b)[i] == x); }
        if b.contains(x) { let i = choose|i: int| 0 <= i < b.len() && b[i] == x; assert((a + b)[a.len() + i] == x); }
    }
}
