// ======== spec vocabulary of U1 (pure Verus; mentions no code)
pub type IdsT = Seq<Vec<ArrayVec<SystemId, MAX_SYSTEMS_PER_GROUP>>>;
pub type RwsT = Seq<Vec<Vec<ResourceId>>>;

pub open spec fn inter<T>(a: Seq<T>, b: Seq<T>) -> bool {
    exists|i: int, j: int| 0 <= i < a.len() && 0 <= j < b.len() && a[i] == b[j]
}
pub open spec fn spec_conflict_add(c: Conflict, g: usize) -> Conflict {
    match c { Conflict::None => Conflict::Single(g), _ => Conflict::Multiple }
}
// C01: does a system declaring (nr, nw) conflict on resources with a group whose accumulated access is (reads, writes)?
// W/W, W/R and R/W overlap, on full ResourceId equality.
pub open spec fn res_conflict(reads: Seq<ResourceId>, writes: Seq<ResourceId>, nr: Seq<ResourceId>, nw: Seq<ResourceId>) -> bool {
    inter(nw, writes + reads) || inter(nr, writes)
}
pub open spec fn grp_hit(ids: Seq<SystemId>, reads: Seq<ResourceId>, writes: Seq<ResourceId>, nr: Seq<ResourceId>, nw: Seq<ResourceId>, dep: Seq<SystemId>) -> bool {
    res_conflict(reads, writes, nr, nw) || inter(dep, ids)
}
pub open spec fn grp_dep_only(ids: Seq<SystemId>, reads: Seq<ResourceId>, writes: Seq<ResourceId>, nr: Seq<ResourceId>, nw: Seq<ResourceId>, dep: Seq<SystemId>) -> bool {
    !res_conflict(reads, writes, nr, nw) && inter(dep, ids)
}
pub open spec fn shape_ok(ids: IdsT, reads: RwsT, writes: RwsT, stage: int) -> bool {
    0 <= stage < ids.len() && ids.len() == reads.len() && ids.len() == writes.len()
    && ids[stage].len() == reads[stage].len() && ids[stage].len() == writes[stage].len()
}
pub open spec fn hit_at(ids: IdsT, reads: RwsT, writes: RwsT, stage: int, g: int, nr: Seq<ResourceId>, nw: Seq<ResourceId>, dep: Seq<SystemId>) -> bool {
    grp_hit(ids[stage][g]@, reads[stage][g]@, writes[stage][g]@, nr, nw, dep)
}
pub open spec fn dep_only_at(ids: IdsT, reads: RwsT, writes: RwsT, stage: int, g: int, nr: Seq<ResourceId>, nw: Seq<ResourceId>, dep: Seq<SystemId>) -> bool {
    grp_dep_only(ids[stage][g]@, reads[stage][g]@, writes[stage][g]@, nr, nw, dep)
}
// fold of Conflict::add over the hit groups in [0, n)
pub open spec fn fold_hits(ids: IdsT, reads: RwsT, writes: RwsT, stage: int, nr: Seq<ResourceId>, nw: Seq<ResourceId>, dep: Seq<SystemId>, n: int) -> Conflict
    decreases n
{
    if n <= 0 { Conflict::None } else {
        let prev = fold_hits(ids, reads, writes, stage, nr, nw, dep, n - 1);
        if hit_at(ids, reads, writes, stage, n - 1, nr, nw, dep) { spec_conflict_add(prev, (n - 1) as usize) } else { prev }
    }
}
pub open spec fn any_dep_only(ids: IdsT, reads: RwsT, writes: RwsT, stage: int, nr: Seq<ResourceId>, nw: Seq<ResourceId>, dep: Seq<SystemId>, n: int) -> bool
    decreases n
{
    n > 0 && (any_dep_only(ids, reads, writes, stage, nr, nw, dep, n - 1) || dep_only_at(ids, reads, writes, stage, n - 1, nr, nw, dep))
}
pub open spec fn spec_find_conflict(ids: IdsT, reads: RwsT, writes: RwsT, stage: int, nr: Seq<ResourceId>, nw: Seq<ResourceId>, dep: Seq<SystemId>) -> Conflict {
    let n = ids[stage].len() as int;
    let dc = any_dep_only(ids, reads, writes, stage, nr, nw, dep, n);
    if (dc && dep.len() > 1) || (!dc && dep.len() != 0) { Conflict::Multiple } else { fold_hits(ids, reads, writes, stage, nr, nw, dep, n) }
}
// what a verdict means (used by insertion_target): derived from the definition by lemma_verdict
pub open spec fn verdict_ok(c: Conflict, ids: IdsT, reads: RwsT, writes: RwsT, stage: int, nr: Seq<ResourceId>, nw: Seq<ResourceId>, dep: Seq<SystemId>) -> bool {
    match c {
        Conflict::None => dep.len() == 0
            && forall|g: int| 0 <= g < ids[stage].len() ==> !res_conflict(#[trigger] reads[stage][g]@, writes[stage][g]@, nr, nw),
        Conflict::Single(h) => h < ids[stage].len()
            && (forall|g: int| 0 <= g < ids[stage].len() && g != h ==> !res_conflict(#[trigger] reads[stage][g]@, writes[stage][g]@, nr, nw))
            && (forall|i: int| 0 <= i < dep.len() ==> ids[stage][h as int]@.contains(#[trigger] dep[i])),
        // C10: a rejected stage holds a conflicting group, a dependency, or dependencies are still pending
        Conflict::Multiple => dep.len() != 0
            || exists|g: int| 0 <= g < ids[stage].len() && res_conflict(#[trigger] reads[stage][g]@, writes[stage][g]@, nr, nw),
    }
}
pub proof fn lemma_fold_hits(ids: IdsT, reads: RwsT, writes: RwsT, stage: int, nr: Seq<ResourceId>, nw: Seq<ResourceId>, dep: Seq<SystemId>, n: int)
    requires 0 <= n <= usize::MAX
    ensures
        match fold_hits(ids, reads, writes, stage, nr, nw, dep, n) {
            Conflict::None => forall|g: int| 0 <= g < n ==> !#[trigger] hit_at(ids, reads, writes, stage, g, nr, nw, dep),
            Conflict::Single(h) => 0 <= h < n && hit_at(ids, reads, writes, stage, h as int, nr, nw, dep)
                && forall|g: int| 0 <= g < n && g != h ==> !#[trigger] hit_at(ids, reads, writes, stage, g, nr, nw, dep),
            Conflict::Multiple => exists|g: int| 0 <= g < n && #[trigger] hit_at(ids, reads, writes, stage, g, nr, nw, dep),
        }
    decreases n
{
    if n > 0 { lemma_fold_hits(ids, reads, writes, stage, nr, nw, dep, n - 1); }
}
pub proof fn lemma_dep_only(ids: IdsT, reads: RwsT, writes: RwsT, stage: int, nr: Seq<ResourceId>, nw: Seq<ResourceId>, dep: Seq<SystemId>, n: int)
    ensures
        any_dep_only(ids, reads, writes, stage, nr, nw, dep, n) ==> exists|g: int| 0 <= g < n && #[trigger] hit_at(ids, reads, writes, stage, g, nr, nw, dep) && inter(dep, ids[stage][g]@),
        !any_dep_only(ids, reads, writes, stage, nr, nw, dep, n) ==> forall|g: int| 0 <= g < n && #[trigger] hit_at(ids, reads, writes, stage, g, nr, nw, dep) ==> res_conflict(reads[stage][g]@, writes[stage][g]@, nr, nw),
    decreases n
{
    if n > 0 {
        lemma_dep_only(ids, reads, writes, stage, nr, nw, dep, n - 1);
        if dep_only_at(ids, reads, writes, stage, n - 1, nr, nw, dep) {
            assert(hit_at(ids, reads, writes, stage, n - 1, nr, nw, dep) && inter(dep, ids[stage][n - 1]@));
        }
    }
}
pub proof fn lemma_verdict(ids: IdsT, reads: RwsT, writes: RwsT, stage: int, nr: Seq<ResourceId>, nw: Seq<ResourceId>, dep: Seq<SystemId>)
    requires ids[stage].len() <= usize::MAX
    ensures verdict_ok(spec_find_conflict(ids, reads, writes, stage, nr, nw, dep), ids, reads, writes, stage, nr, nw, dep)
{
    let n = ids[stage].len() as int;
    lemma_fold_hits(ids, reads, writes, stage, nr, nw, dep, n);
    lemma_dep_only(ids, reads, writes, stage, nr, nw, dep, n);
    match spec_find_conflict(ids, reads, writes, stage, nr, nw, dep) {
        Conflict::None => {
            assert forall|g: int| 0 <= g < n implies !res_conflict(#[trigger] reads[stage][g]@, writes[stage][g]@, nr, nw) by {
                assert(!hit_at(ids, reads, writes, stage, g, nr, nw, dep));
            }
        }
        Conflict::Single(h) => {
            assert forall|g: int| 0 <= g < n && g != h implies !res_conflict(#[trigger] reads[stage][g]@, writes[stage][g]@, nr, nw) by {
                assert(!hit_at(ids, reads, writes, stage, g, nr, nw, dep));
            }
            if dep.len() != 0 {
                let g = choose|g: int| 0 <= g < n && #[trigger] hit_at(ids, reads, writes, stage, g, nr, nw, dep) && inter(dep, ids[stage][g]@);
                assert(g == h);
                let (a, b) = choose|a: int, b: int| 0 <= a < dep.len() && 0 <= b < ids[stage][g]@.len() && dep[a] == ids[stage][g]@[b];
                assert forall|i: int| 0 <= i < dep.len() implies ids[stage][h as int]@.contains(#[trigger] dep[i]) by {
                    assert(i == 0 && a == 0);
                    assert(ids[stage][h as int]@[b] == dep[i]);
                }
            }
        }
        Conflict::Multiple => {
            if dep.len() == 0 {
                let g = choose|g: int| 0 <= g < n && #[trigger] hit_at(ids, reads, writes, stage, g, nr, nw, dep);
                assert(!inter(dep, ids[stage][g]@));
                assert(res_conflict(reads[stage][g]@, writes[stage][g]@, nr, nw));
            }
        }
    }
}
