// ======== C19: the placement decisions as *functions* of their arguments (pure Verus; present only in the `fun` run)
// The spec functions below mention resource ids only through `inter` (existence of an equal pair), never through an order,
// a hash or a position inside a list, and they mention no system name at all.  The lemmas at the end are the invariance
// statements of C19 over these functions; the contracts of the `fun` group tie the real code to them.
pub type RtT = Seq<Vec<u8>>;
pub type StT = Seq<ArrayVec<SystemId, MAX_SYSTEMS_PER_GROUP>>;

// `s` without every occurrence of `id`, order kept (Vec::retain(|x| *x != id))
pub open spec fn keep_ne(s: Seq<SystemId>, id: SystemId) -> Seq<SystemId>
    decreases s.len()
{
    if s.len() == 0 { s } else {
        let r = keep_ne(s.drop_last(), id);
        if s.last() != id { r.push(s.last()) } else { r }
    }
}
// the dependency list after crossing off the ids of groups [0, a) of a stage and the first b ids of group a
pub open spec fn minus_prefix(dep: Seq<SystemId>, st: StT, a: int, b: int) -> Seq<SystemId>
    decreases a, b
{
    if a < 0 || b < 0 || (a == 0 && b == 0) { dep }
    else if b == 0 { minus_prefix(dep, st, a - 1, st[a - 1]@.len() as int) }
    else { keep_ne(minus_prefix(dep, st, a, b - 1), st[a]@[b - 1]) }
}
pub open spec fn minus_stage(dep: Seq<SystemId>, ids: IdsT, s: int) -> Seq<SystemId> {
    minus_prefix(dep, ids[s]@, ids[s]@.len() as int, 0)
}
pub open spec fn minus_upto(dep: Seq<SystemId>, ids: IdsT, k: int) -> Seq<SystemId>
    decreases k
{
    if k <= 0 { dep } else { minus_stage(minus_upto(dep, ids, k - 1), ids, k - 1) }
}
pub proof fn lemma_keep_ne_empty(id: SystemId)
    ensures keep_ne(Seq::<SystemId>::empty(), id) == Seq::<SystemId>::empty()
{}
pub proof fn lemma_minus_prefix_empty(st: StT, a: int, b: int)
    ensures minus_prefix(Seq::<SystemId>::empty(), st, a, b) == Seq::<SystemId>::empty()
    decreases a, b
{
    if a < 0 || b < 0 || (a == 0 && b == 0) {}
    else if b == 0 { lemma_minus_prefix_empty(st, a - 1, st[a - 1]@.len() as int); }
    else { lemma_minus_prefix_empty(st, a, b - 1); lemma_keep_ne_empty(st[a]@[b - 1]); }
}
// one step of the retain loop: cur.take(j) has been filtered, cur.skip(j) is still untouched
pub proof fn lemma_keep_ne_step(cur: Seq<SystemId>, j: int, id: SystemId)
    requires 0 <= j < cur.len()
    ensures
        cur[j] != id ==> keep_ne(cur.take(j + 1), id) == keep_ne(cur.take(j), id).push(cur[j]),
        cur[j] == id ==> keep_ne(cur.take(j + 1), id) == keep_ne(cur.take(j), id),
{
    assert(cur.take(j + 1).drop_last() =~= cur.take(j));
    assert(cur.take(j + 1).last() == cur[j]);
}
pub proof fn lemma_keep_ne_len(s: Seq<SystemId>, id: SystemId)
    ensures keep_ne(s, id).len() <= s.len()
    decreases s.len()
{
    if s.len() > 0 { lemma_keep_ne_len(s.drop_last(), id); }
}

// index of the last maximum among the first k entries (k >= 1): `iter().max()` returns the last of several equal maxima
pub open spec fn max_idx(rt: Seq<u8>, k: int) -> int
    decreases k
{
    if k <= 1 { 0 } else { let m = max_idx(rt, k - 1); if rt[k - 1] >= rt[m] { k - 1 } else { m } }
}
pub proof fn lemma_max_idx_range(rt: Seq<u8>, k: int)
    requires 1 <= k <= rt.len()
    ensures 0 <= max_idx(rt, k) < k
    decreases k
{
    if k > 1 { lemma_max_idx_range(rt, k - 1); }
}
pub open spec fn abs_i(x: int) -> int { if x < 0 { -x } else { x } }
pub open spec fn spec_improves(rt: Seq<u8>, g: int, t: int) -> bool {
    let mx = rt[max_idx(rt, rt.len() as int)] as int;
    let old = rt[g] as int;
    abs_i(mx - (old + t)) < abs_i(mx - old)
}
pub open spec fn spec_accept(ids: IdsT, rt: RtT, s: int, c: Conflict, t: int) -> bool {
    match c {
        Conflict::None => true,
        Conflict::Single(g) => ids[s]@[g as int]@.len() < MAX_SYSTEMS_PER_GROUP - 1 && spec_improves(rt[s]@, g as int, t),
        Conflict::Multiple => false,
    }
}
pub open spec fn conflict_target(s: int, c: Conflict) -> InsertionTarget {
    match c {
        Conflict::None => InsertionTarget::Stage(s as usize),
        Conflict::Single(g) => InsertionTarget::Group(s as usize, g),
        Conflict::Multiple => InsertionTarget::NewStage,
    }
}
// the scan of insertion_target from stage s on, with `dep` the dependencies not yet crossed off
pub open spec fn spec_scan(ids: IdsT, reads: RwsT, writes: RwsT, rt: RtT, s: int, dep: Seq<SystemId>, nr: Seq<ResourceId>, nw: Seq<ResourceId>, t: int) -> InsertionTarget
    decreases ids.len() - s
{
    if s < 0 || s >= ids.len() { InsertionTarget::NewStage } else {
        let c = spec_find_conflict(ids, reads, writes, s, nr, nw, dep);
        if spec_accept(ids, rt, s, c, t) { conflict_target(s, c) }
        else { spec_scan(ids, reads, writes, rt, s + 1, minus_stage(dep, ids, s), nr, nw, t) }
    }
}
pub open spec fn spec_target(ids: IdsT, reads: RwsT, writes: RwsT, rt: RtT, barrier: int, dep: Seq<SystemId>, nr: Seq<ResourceId>, nw: Seq<ResourceId>, t: int) -> InsertionTarget {
    spec_scan(ids, reads, writes, rt, barrier, minus_upto(dep, ids, barrier), nr, nw, t)
}
impl StagesBuilder {
    pub open spec fn fun_target(&self, dep: Seq<SystemId>, nr: Seq<ResourceId>, nw: Seq<ResourceId>, t: int) -> InsertionTarget {
        spec_target(self.ids@, self.reads@, self.writes@, self.running_time@, self.barrier as int, dep, nr, nw, t)
    }
    // the slot insert appends to, given the target
    pub open spec fn slot_of(&self, r: InsertionTarget) -> (int, int) {
        match r {
            InsertionTarget::Stage(s) => (s as int, self.ngroups(s as int)),
            InsertionTarget::Group(s, g) => (s as int, g as int),
            InsertionTarget::NewStage => (self.nstages(), 0int),
        }
    }
    pub open spec fn placed_fun(&self, s: int, g: int, dep: Seq<SystemId>, nr: Seq<ResourceId>, nw: Seq<ResourceId>, t: int) -> bool {
        (s, g) == self.slot_of(self.fun_target(dep, nr, nw, t))
    }
}

// ---- invariance (C19).  Two (table, declared access) pairs that agree on every group's conflict verdict yield the same target.
pub open spec fn same_hits(ids: IdsT, r1: RwsT, w1: RwsT, nr1: Seq<ResourceId>, nw1: Seq<ResourceId>, r2: RwsT, w2: RwsT, nr2: Seq<ResourceId>, nw2: Seq<ResourceId>) -> bool {
    forall|s: int, g: int| 0 <= s < ids.len() && 0 <= g < ids[s]@.len() ==>
        res_conflict(#[trigger] r1[s]@[g]@, w1[s]@[g]@, nr1, nw1) == res_conflict(#[trigger] r2[s]@[g]@, w2[s]@[g]@, nr2, nw2)
}
pub proof fn lemma_fold_same(ids: IdsT, r1: RwsT, w1: RwsT, nr1: Seq<ResourceId>, nw1: Seq<ResourceId>, r2: RwsT, w2: RwsT, nr2: Seq<ResourceId>, nw2: Seq<ResourceId>, stage: int, dep: Seq<SystemId>, n: int)
    requires same_hits(ids, r1, w1, nr1, nw1, r2, w2, nr2, nw2), 0 <= stage < ids.len(), n <= ids[stage]@.len()
    ensures
        fold_hits(ids, r1, w1, stage, nr1, nw1, dep, n) == fold_hits(ids, r2, w2, stage, nr2, nw2, dep, n),
        any_dep_only(ids, r1, w1, stage, nr1, nw1, dep, n) == any_dep_only(ids, r2, w2, stage, nr2, nw2, dep, n),
    decreases n
{
    if n > 0 {
        lemma_fold_same(ids, r1, w1, nr1, nw1, r2, w2, nr2, nw2, stage, dep, n - 1);
        assert(res_conflict(r1[stage]@[n - 1]@, w1[stage]@[n - 1]@, nr1, nw1) == res_conflict(r2[stage]@[n - 1]@, w2[stage]@[n - 1]@, nr2, nw2));
    }
}
pub proof fn lemma_scan_same(ids: IdsT, r1: RwsT, w1: RwsT, nr1: Seq<ResourceId>, nw1: Seq<ResourceId>, r2: RwsT, w2: RwsT, nr2: Seq<ResourceId>, nw2: Seq<ResourceId>, rt: RtT, s: int, dep: Seq<SystemId>, t: int)
    requires same_hits(ids, r1, w1, nr1, nw1, r2, w2, nr2, nw2)
    ensures spec_scan(ids, r1, w1, rt, s, dep, nr1, nw1, t) == spec_scan(ids, r2, w2, rt, s, dep, nr2, nw2, t)
    decreases ids.len() - s
{
    if 0 <= s < ids.len() {
        lemma_fold_same(ids, r1, w1, nr1, nw1, r2, w2, nr2, nw2, s, dep, ids[s]@.len() as int);
        lemma_scan_same(ids, r1, w1, nr1, nw1, r2, w2, nr2, nw2, rt, s + 1, minus_stage(dep, ids, s), t);
    }
}
// (the plan does not depend on names: no spec function above takes one)
// (a) permutation / duplication inside the declared lists, and the unspecified order `sort` leaves in the stored tables
pub proof fn lemma_inter_same_set<T>(a1: Seq<T>, a2: Seq<T>, b1: Seq<T>, b2: Seq<T>)
    requires same_set(a1, a2), same_set(b1, b2)
    ensures inter(a1, b1) == inter(a2, b2)
{
    if inter(a1, b1) {
        let (i, j) = choose|i: int, j: int| 0 <= i < a1.len() && 0 <= j < b1.len() && a1[i] == b1[j];
        assert(a1.contains(a1[i])); assert(b1.contains(b1[j]));
        let i2 = choose|k: int| 0 <= k < a2.len() && a2[k] == a1[i];
        let j2 = choose|k: int| 0 <= k < b2.len() && b2[k] == b1[j];
        assert(a2[i2] == b2[j2]);
    }
    if inter(a2, b2) {
        let (i, j) = choose|i: int, j: int| 0 <= i < a2.len() && 0 <= j < b2.len() && a2[i] == b2[j];
        assert(a2.contains(a2[i])); assert(b2.contains(b2[j]));
        let i1 = choose|k: int| 0 <= k < a1.len() && a1[k] == a2[i];
        let j1 = choose|k: int| 0 <= k < b1.len() && b1[k] == b2[j];
        assert(a1[i1] == b1[j1]);
    }
}
pub proof fn lemma_same_set_concat<T>(a1: Seq<T>, a2: Seq<T>, b1: Seq<T>, b2: Seq<T>)
    requires same_set(a1, a2), same_set(b1, b2)
    ensures same_set(a1 + b1, a2 + b2)
{
    assert forall|x: T| (a1 + b1).contains(x) <==> (a2 + b2).contains(x) by {
        if (a1 + b1).contains(x) {
            let k = choose|k: int| 0 <= k < (a1 + b1).len() && (a1 + b1)[k] == x;
            if k < a1.len() { assert(a1.contains(a1[k])); let k2 = choose|m: int| 0 <= m < a2.len() && a2[m] == x; assert((a2 + b2)[k2] == x); }
            else { assert(b1.contains(b1[k - a1.len()])); let k2 = choose|m: int| 0 <= m < b2.len() && b2[m] == x; assert((a2 + b2)[k2 + a2.len()] == x); }
        }
        if (a2 + b2).contains(x) {
            let k = choose|k: int| 0 <= k < (a2 + b2).len() && (a2 + b2)[k] == x;
            if k < a2.len() { assert(a2.contains(a2[k])); let k2 = choose|m: int| 0 <= m < a1.len() && a1[m] == x; assert((a1 + b1)[k2] == x); }
            else { assert(b2.contains(b2[k - a2.len()])); let k2 = choose|m: int| 0 <= m < b1.len() && b1[m] == x; assert((a1 + b1)[k2 + a1.len()] == x); }
        }
    }
}
pub proof fn lemma_res_conflict_same_set(r1: Seq<ResourceId>, w1: Seq<ResourceId>, nr1: Seq<ResourceId>, nw1: Seq<ResourceId>, r2: Seq<ResourceId>, w2: Seq<ResourceId>, nr2: Seq<ResourceId>, nw2: Seq<ResourceId>)
    requires same_set(r1, r2), same_set(w1, w2), same_set(nr1, nr2), same_set(nw1, nw2)
    ensures res_conflict(r1, w1, nr1, nw1) == res_conflict(r2, w2, nr2, nw2)
{
    lemma_same_set_concat(w1, w2, r1, r2);
    lemma_inter_same_set(nw1, nw2, w1 + r1, w2 + r2);
    lemma_inter_same_set(nr1, nr2, w1, w2);
}
pub open spec fn tables_same_sets(ids: IdsT, r1: RwsT, w1: RwsT, r2: RwsT, w2: RwsT) -> bool {
    forall|s: int, g: int| 0 <= s < ids.len() && 0 <= g < ids[s]@.len() ==> same_set(#[trigger] r1[s]@[g]@, r2[s]@[g]@) && same_set(#[trigger] w1[s]@[g]@, w2[s]@[g]@)
}
pub proof fn lemma_c19_lists(ids: IdsT, r1: RwsT, w1: RwsT, r2: RwsT, w2: RwsT, rt: RtT, barrier: int, dep: Seq<SystemId>, nr1: Seq<ResourceId>, nw1: Seq<ResourceId>, nr2: Seq<ResourceId>, nw2: Seq<ResourceId>, t: int)
    requires tables_same_sets(ids, r1, w1, r2, w2), same_set(nr1, nr2), same_set(nw1, nw2)
    ensures spec_target(ids, r1, w1, rt, barrier, dep, nr1, nw1, t) == spec_target(ids, r2, w2, rt, barrier, dep, nr2, nw2, t)
{
    assert forall|s: int, g: int| 0 <= s < ids.len() && 0 <= g < ids[s]@.len() implies
        res_conflict(#[trigger] r1[s]@[g]@, w1[s]@[g]@, nr1, nw1) == res_conflict(#[trigger] r2[s]@[g]@, w2[s]@[g]@, nr2, nw2) by {
        lemma_res_conflict_same_set(r1[s]@[g]@, w1[s]@[g]@, nr1, nw1, r2[s]@[g]@, w2[s]@[g]@, nr2, nw2);
    }
    lemma_scan_same(ids, r1, w1, nr1, nw1, r2, w2, nr2, nw2, rt, barrier, minus_upto(dep, ids, barrier), t);
}
// (b) an injective relabelling of resource ids (types and dynamic ids alike: the id is compared as a whole)
pub open spec fn injective(rho: spec_fn(ResourceId) -> ResourceId) -> bool {
    forall|x: ResourceId, y: ResourceId| #[trigger] rho(x) == #[trigger] rho(y) ==> x == y
}
pub proof fn lemma_inter_relabel(rho: spec_fn(ResourceId) -> ResourceId, a: Seq<ResourceId>, b: Seq<ResourceId>)
    requires injective(rho)
    ensures inter(a.map_values(rho), b.map_values(rho)) == inter(a, b)
{
    let (a2, b2) = (a.map_values(rho), b.map_values(rho));
    if inter(a, b) {
        let (i, j) = choose|i: int, j: int| 0 <= i < a.len() && 0 <= j < b.len() && a[i] == b[j];
        assert(a2[i] == b2[j]);
    }
    if inter(a2, b2) {
        let (i, j) = choose|i: int, j: int| 0 <= i < a2.len() && 0 <= j < b2.len() && a2[i] == b2[j];
        assert(rho(a[i]) == rho(b[j]));
        assert(a[i] == b[j]);
    }
}
pub open spec fn tables_relabelled(rho: spec_fn(ResourceId) -> ResourceId, ids: IdsT, r1: RwsT, w1: RwsT, r2: RwsT, w2: RwsT) -> bool {
    forall|s: int, g: int| 0 <= s < ids.len() && 0 <= g < ids[s]@.len() ==>
        #[trigger] r2[s]@[g]@ == r1[s]@[g]@.map_values(rho) && #[trigger] w2[s]@[g]@ == w1[s]@[g]@.map_values(rho)
}
pub proof fn lemma_res_conflict_relabel(rho: spec_fn(ResourceId) -> ResourceId, r: Seq<ResourceId>, w: Seq<ResourceId>, nr: Seq<ResourceId>, nw: Seq<ResourceId>)
    requires injective(rho)
    ensures res_conflict(r.map_values(rho), w.map_values(rho), nr.map_values(rho), nw.map_values(rho)) == res_conflict(r, w, nr, nw)
{
    assert(w.map_values(rho) + r.map_values(rho) =~= (w + r).map_values(rho));
    lemma_inter_relabel(rho, nw, w + r);
    lemma_inter_relabel(rho, nr, w);
}
pub proof fn lemma_c19_relabel(rho: spec_fn(ResourceId) -> ResourceId, ids: IdsT, r1: RwsT, w1: RwsT, r2: RwsT, w2: RwsT, rt: RtT, barrier: int, dep: Seq<SystemId>, nr: Seq<ResourceId>, nw: Seq<ResourceId>, t: int)
    requires injective(rho), tables_relabelled(rho, ids, r1, w1, r2, w2)
    ensures spec_target(ids, r1, w1, rt, barrier, dep, nr, nw, t) == spec_target(ids, r2, w2, rt, barrier, dep, nr.map_values(rho), nw.map_values(rho), t)
{
    let (nr2, nw2) = (nr.map_values(rho), nw.map_values(rho));
    assert forall|s: int, g: int| 0 <= s < ids.len() && 0 <= g < ids[s]@.len() implies
        res_conflict(#[trigger] r1[s]@[g]@, w1[s]@[g]@, nr, nw) == res_conflict(#[trigger] r2[s]@[g]@, w2[s]@[g]@, nr2, nw2) by {
        lemma_res_conflict_relabel(rho, r1[s]@[g]@, w1[s]@[g]@, nr, nw);
    }
    lemma_scan_same(ids, r1, w1, nr, nw, r2, w2, nr2, nw2, rt, barrier, minus_upto(dep, ids, barrier), t);
}
impl DispatcherBuilder {
    // C19: the slot a registration lands in is the function `fun_target` of the builder's tables, the declared access,
    // the ids its dependency names stand for (in the order given) and the running-time hint; its id is the registration counter
    pub open spec fn added_fun(&self, post: &DispatcherBuilder, idn: Ident, t: int, deps: Seq<SystemId>) -> bool {
        exists|s: int, g: int, rs: Seq<ResourceId>| #[trigger] at_slot(s, g, rs)
              && self.stages_builder.placed(&post.stages_builder, s, g, SystemId(self.current_id), rs, idn.writes, t)
              && self.stages_builder.placed_fun(s, g, deps, idn.reads, idn.writes, t)
    }
}
