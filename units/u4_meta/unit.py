# U4: the meta table (src/meta.rs) on top of U3's World
import os
import lower
M = "src/meta.rs"
W = "src/world/mod.rs"
U3 = os.path.join(os.path.dirname(os.path.abspath(__file__)), "..", "u3_world")
exec(open(os.path.join(U3, "unit.py")).read().split("UNIT = dict(")[0])   # TYPE_RULES, PUBF of U3

TYPE_RULES4 = TYPE_RULES + [
    (r"fn\s*\(\s*\*mut\s*\(\)\s*\)\s*->\s*\*mut\s+T\b", "VtFn<T>"),
    (r"\*mut\s*\(\)", "ErasedPtr"),
    (r"->\s*\*mut\s+TraitObject\b", "-> TraitPtr<TraitObject>"),
    (r"PhantomData\s*<\s*Invariant\s*<\s*T\s*>\s*>", "PhantomData<TraitPtr<T>>"),
    (r"\bcore::ptr::eq\(", "vx_ptr_eq("),
    (r"\battach_vtable::<\s*T\s*,\s*R\s*>\s*;", "vx_vtable_of::<T, R>();"),
    (r"\(\s*vtable_fn\s*\)\s*\(", "vtable_fn.vx_call("),
    (r"<\*const DynRes>::cast::<\(\)>\(res\)\.cast_mut\(\)", "vx_erase_ref(res)"),
    (r"<\*mut DynRes>::cast::<\(\)>\(res\)", "vx_erase_mut(res)"),
    (r"\{\s*&\s*\*\s*trait_ptr\s*\}", "{ vx_deref_trait(trait_ptr) }"),
    (r"\{\s*&mut\s*\*\s*trait_ptr\s*\}", "{ vx_deref_trait_mut(trait_ptr) }"),
    (r"let ptr: \*const DynRes = Box::as_ref\(res\);", "let ptr = vx_erase_ref(&**res);"),
    (r"ptr\.cast::<\(\)>\(\)\.cast_mut\(\)", "ptr"),
    (r"let ptr: \*mut DynRes = Box::as_mut\(res\);", "let ptr = vx_erase_mut(&mut **res);"),
    (r"\(ptr\.cast::<\(\)>\(\)\)", "(ptr)"),
    (r"\bAtomicRefMut::map\(", "vx_refmut_map("),
    (r"\bAtomicRefMut\s*<\s*'a\s*,\s*T\s*>", "AtomicRefMutT<'a, T>"),
    (r"\bAtomicRef::map\(", "vx_ref_map("),
    (r"self\.tys\.get\(self\.index\)", "vx_slice_get(self.tys, self.index)"),
    (r"\bAtomicRef\s*<\s*'a\s*,\s*T\s*>", "AtomicRefT<'a, T>"),
]
RRT = PUBF + [(r"^pub struct", "#[verifier::reject_recursive_types(T)]\npub struct")]
MT = r"impl < T : \? Sized > MetaTable < T >"

UNIT = dict(
    name="u4_meta",
    crate_attrs=["#![feature(allocator_api)]"],
    prelude=["../u3_world/prelude.rs", "prelude.rs"],
    contracts=["../u3_world/world.vspec", "meta.vspec"],
    allow_unused_contracts=True,
    lib=[],
    type_rules=TYPE_RULES4,
    derive_keep=("PartialEq", "Eq", "Hash"), structural=False,
    method_renames={},
    macro_rules={
        "panic": lambda a: "vx_panic()",
        "assert": lambda a: "vx_check(%s)" % lower._split_args(a)[0],
        "assert_eq": lambda a: "vx_check(vx_type_eq(&(%s), &(%s)))" % tuple(x.strip() for x in a.split(",")[:2]),
    },
    items=[
        dict(key="ResourceId", file=W, kind="struct", name="ResourceId", rules=PUBF, erase_lifetimes=False),
        dict(key="World", file=W, kind="struct", name="World", rules=PUBF, erase_lifetimes=False),
        dict(key="MetaIter", file=M, kind="struct", name="MetaIter", rules=RRT, erase_lifetimes=False),
        dict(key="MetaIterMut", file=M, kind="struct", name="MetaIterMut", rules=RRT, erase_lifetimes=False),
        dict(key="MetaTable", file=M, kind="struct", name="MetaTable", rules=RRT, erase_lifetimes=False),
        dict(text=open(os.path.join(U3, "lib.rs")).read().split("impl<'a, T> Fetch<'a, T>")[0]),
        dict(text=open(__file__.replace("unit.py", "lib.rs")).read()),
        dict(key="ResourceId::from_type_id", file=W, kind="fn", name="from_type_id", owner=r"^impl ResourceId$", emit_owner="impl ResourceId", erase_lifetimes=False),
        dict(key="ResourceId::from_type_id_and_dynamic_id", file=W, kind="fn", name="from_type_id_and_dynamic_id", owner=r"^impl ResourceId$", emit_owner="impl ResourceId", erase_lifetimes=False),
        dict(key="World::try_fetch_internal", file=W, kind="fn", name="try_fetch_internal", owner=r"^impl World$", emit_owner="impl World", erase_lifetimes=False),
        dict(key="attach_vtable", file=M, kind="fn", name="attach_vtable", erase_lifetimes=False, drop_where=True, drop_generics=True,
             sig_rules=[(r"\bfn attach_vtable", "fn attach_vtable<TraitObject: CastFrom<T> + ?Sized, T: 'static>")],
             body_rules=[(r"\.cast::<\(\)>\(\)", ".cast::<u8>()")], groups=["P"]),
        dict(key="MetaTable::register", groups=["meta"], file=M, kind="fn", name="register", owner=MT, emit_owner="impl<T: ?Sized> MetaTable<T>", erase_lifetimes=False, drop_where=True,
             sig_rules=[(r"\bregister<R>", "register<R: Resource>"), (r"\)\s*$", ")\n    where T: CastFrom<R> + 'static\n")]),
        dict(key="MetaTable::get", groups=["meta"], file=M, kind="fn", name="get", owner=MT, emit_owner="impl<T: ?Sized> MetaTable<T>", erase_lifetimes=False),
        dict(key="MetaTable::iter", groups=["meta"], file=M, kind="fn", name="iter", owner=MT, emit_owner="impl<T: ?Sized> MetaTable<T>", erase_lifetimes=False),
        dict(key="MetaIter::next", file=M, kind="fn", name="next", owner=r"Iterator for MetaIter <", emit_owner="impl<'a, T: ?Sized + 'a> MetaIter<'a, T>", erase_lifetimes=False,
             sig_rules=[(r"Option\s*<\s*<\s*Self as Iterator\s*>\s*::\s*Item\s*>", "Option<AtomicRefT<'a, T>>")], groups=["P"]),
        dict(key="MetaTable::get_mut", groups=["meta"], file=M, kind="fn", name="get_mut", owner=MT, emit_owner="impl<T: ?Sized> MetaTable<T>", erase_lifetimes=False),
        dict(key="MetaTable::iter_mut", groups=["meta"], file=M, kind="fn", name="iter_mut", owner=MT, emit_owner="impl<T: ?Sized> MetaTable<T>", erase_lifetimes=False),
        dict(key="MetaIterMut::next", file=M, kind="fn", name="next", owner=r"Iterator for MetaIterMut <", emit_owner="impl<'a, T: ?Sized + 'a> MetaIterMut<'a, T>", erase_lifetimes=False,
             sig_rules=[(r"Option\s*<\s*<\s*Self as Iterator\s*>\s*::\s*Item\s*>", "Option<AtomicRefMutT<'a, T>>")], groups=["P"]),
    ],
)
