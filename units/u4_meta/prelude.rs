// ======== U4 prelude: raw pointers and vtable functions of meta.rs as ghost (address, type) pairs
use std::collections::hash_map::Entry;
// `*mut ()`: an erased pointer; remembers the address and the concrete type of what it points to
#[verifier::external_body] #[derive(Clone, Copy)]
pub struct ErasedPtr { _p: usize }
impl ErasedPtr {
    pub uninterp spec fn addr(&self) -> int;
    pub uninterp spec fn pty(&self) -> TypeId;
    // value.cast::<T>()
    #[verifier::external_body] pub fn cast<T>(self) -> (r: TypedPtr<T>) ensures r.addr() == self.addr() { unimplemented!() }
}
#[verifier::external_body] #[verifier::reject_recursive_types(T)]
pub struct TypedPtr<T> { _p: PhantomData<T> }
impl<T> TypedPtr<T> { pub uninterp spec fn addr(&self) -> int; }
// `*mut T` / `*const T` for an unsized T: address plus the concrete type whose vtable is attached
#[verifier::external_body] #[verifier::reject_recursive_types(T)]
pub struct TraitPtr<T: ?Sized> { _p: PhantomData<T> }
impl<T: ?Sized> Clone for TraitPtr<T> { #[verifier::external_body] fn clone(&self) -> (r: Self) ensures r == *self { unimplemented!() } }
impl<T: ?Sized> Copy for TraitPtr<T> {}
impl<T: ?Sized> TraitPtr<T> {
    pub uninterp spec fn addr(&self) -> int;
    pub uninterp spec fn vt_type(&self) -> TypeId;
    // trait_ptr.cast::<()>()
    #[verifier::external_body] pub fn cast<U>(self) -> (r: ErasedPtr) ensures r.addr() == self.addr() { unimplemented!() }
}
// core::ptr::eq on thin pointers: equality of addresses
#[verifier::external_body] pub fn vx_ptr_eq(a: ErasedPtr, b: ErasedPtr) -> (r: bool) ensures r == (a.addr() == b.addr()) { unimplemented!() }
// what a reference to the trait object denotes: the address it points to and the concrete type of its vtable
pub uninterp spec fn tv_addr<T: ?Sized>(x: &T) -> int;
pub uninterp spec fn tv_type<T: ?Sized>(x: &T) -> TypeId;
// `&*trait_ptr` / `&mut *trait_ptr` (unsafe)
#[verifier::external_body] pub fn vx_deref_trait<'a, T: ?Sized>(p: TraitPtr<T>) -> (r: &'a T) ensures tv_addr(r) == p.addr(), tv_type(r) == p.vt_type() { unimplemented!() }
#[verifier::external_body] pub fn vx_deref_trait_mut<'a, T: ?Sized>(p: TraitPtr<T>) -> (r: &'a mut T) ensures tv_addr(&*r) == p.addr(), tv_type(&*r) == p.vt_type() { unimplemented!() }
// `&dyn Resource` / `&mut dyn Resource` -> erased pointer
#[verifier::external_body] pub fn vx_erase_ref(r: &DynRes) -> (p: ErasedPtr) ensures p.addr() == r.addr(), p.pty() == r.ty() { unimplemented!() }
#[verifier::external_body] pub fn vx_erase_mut(r: &mut DynRes) -> (p: ErasedPtr) ensures p.addr() == old(r).addr(), p.pty() == old(r).ty(), *final(r) == *old(r) { unimplemented!() }
// user-implemented unsafe trait: may be wrong about the address (caught by attach_vtable's assertion)
pub trait CastFrom<T> { fn cast(t: TypedPtr<T>) -> (r: TraitPtr<Self>); }
// `fn(*mut ()) -> *mut T`: a vtable function; the only constructor is `attach_vtable::<T, R>` taken as a value
#[verifier::external_body] #[verifier::reject_recursive_types(T)]
pub struct VtFn<T: ?Sized> { _p: PhantomData<T> }
impl<T: ?Sized> Clone for VtFn<T> { #[verifier::external_body] fn clone(&self) -> (r: Self) ensures r == *self { unimplemented!() } }
impl<T: ?Sized> Copy for VtFn<T> {}
impl<T: ?Sized> VtFn<T> {
    pub uninterp spec fn fn_type(&self) -> TypeId;      // the R of attach_vtable::<T, R>
    // calling the function pointer = calling attach_vtable::<T, R>(p): sound only on a pointer to an R (safety
    // precondition, made a `requires`); by attach_vtable's proved contract the address is kept
    #[verifier::external_body]
    pub fn vx_call(self, p: ErasedPtr) -> (r: TraitPtr<T>)
        requires self.fn_type() == p.pty(),
        ensures r.addr() == p.addr(), r.vt_type() == self.fn_type()
    { unimplemented!() }
}
#[verifier::external_body]
pub fn vx_vtable_of<T: ?Sized + CastFrom<R>, R: 'static>() -> (f: VtFn<T>) ensures f.fn_type() == type_of::<R>() { unimplemented!() }
// AtomicRef::map / AtomicRefMut::map with a projection closure: same borrow, target = what the closure returns
#[verifier::external_body]
pub fn vx_ref_map<'a, T, U: ?Sized, F: FnOnce(&T) -> &U>(orig: AtomicRef<'a, T>, f: F) -> (r: AtomicRefT<'a, U>)
    requires f.requires((orig.target(),)),
    ensures r.cell() == orig.cell(), f.ensures((orig.target(),), r.target())
{ unimplemented!() }
#[verifier::external_body]
pub fn vx_refmut_map<'a, T, U: ?Sized, F: FnOnce(&mut T) -> &mut U>(orig: AtomicRefMut<'a, T>, f: F) -> (r: AtomicRefMutT<'a, U>)
    requires forall|x: &mut T| *x == *orig.target() ==> #[trigger] f.requires((x,)),
    ensures r.cell() == orig.cell()
{ unimplemented!() }
// guards over an unsized target
#[verifier::external_body] #[verifier::reject_recursive_types(T)]
pub struct AtomicRefT<'a, T: ?Sized> { _p: PhantomData<&'a T> }
impl<'a, T: ?Sized> AtomicRefT<'a, T> { pub uninterp spec fn cell(&self) -> int; pub uninterp spec fn target(&self) -> &T; }
#[verifier::external_body] #[verifier::reject_recursive_types(T)]
pub struct AtomicRefMutT<'a, T: ?Sized> { _p: PhantomData<&'a mut T> }
impl<'a, T: ?Sized> AtomicRefMutT<'a, T> { pub uninterp spec fn cell(&self) -> int; }
pub broadcast axiom fn axiom_type_id_key_model() ensures #[trigger] vstd::std_specs::hash::obeys_key_model::<TypeId>();
// <[T]>::get(i) (no vstd specification): a verified stand-in with the documented meaning
pub fn vx_slice_get<'a, T>(s: &'a [T], i: usize) -> (r: Option<&'a T>)
    ensures match r { Some(x) => i < s@.len() && *x == s@[i as int], None => i >= s@.len() }, s@.len() <= usize::MAX
{ if i < s.len() { Some(&s[i]) } else { None } }
