// ======== U4 spec vocabulary (C17)
pub open spec fn tid_rid(t: TypeId) -> ResourceId { ResourceId { type_id: t, dynamic_id: 0 } }
impl<T: ?Sized> MetaTable<T> {
    // the three tables stay aligned and duplicate-free
    pub open spec fn aligned(&self) -> bool {
        &&& self.tys@.len() == self.vtable_fns@.len()
        &&& self.indices@.len() == self.tys@.len()
        &&& forall|i: int| 0 <= i < self.tys@.len() ==> self.indices@.contains_key(#[trigger] self.tys@[i]) && self.indices@[self.tys@[i]] == i
        &&& forall|t: TypeId| self.indices@.contains_key(t) ==> (#[trigger] self.indices@[t]) < self.tys@.len() && self.tys@[self.indices@[t] as int] == t
        &&& forall|i: int| 0 <= i < self.tys@.len() ==> (#[trigger] self.vtable_fns@[i]).fn_type() == self.tys@[i]
    }
}
impl<'a, T: ?Sized> MetaIter<'a, T> {
    pub open spec fn wf(&self) -> bool {
        &&& self.tys@.len() == self.vtable_fns@.len()
        &&& self.index <= self.tys@.len()
        &&& forall|i: int| 0 <= i < self.tys@.len() ==> (#[trigger] self.vtable_fns@[i]).fn_type() == self.tys@[i]
        &&& self.world.wf()
    }
}
impl<'a, T: ?Sized> MetaIterMut<'a, T> {
    pub open spec fn wf(&self) -> bool {
        &&& self.tys@.len() == self.vtable_fns@.len()
        &&& self.index <= self.tys@.len()
        &&& forall|i: int| 0 <= i < self.tys@.len() ==> (#[trigger] self.vtable_fns@[i]).fn_type() == self.tys@[i]
        &&& self.world.wf()
    }
}
