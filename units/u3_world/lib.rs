// ======== U3 spec vocabulary
pub open spec fn rid<T>() -> ResourceId { ResourceId { type_id: type_of::<T>(), dynamic_id: 0 } }
impl World {
    // C09: the value stored under an id always has the type named by that id (what every unchecked downcast relies on)
    pub open spec fn wf(&self) -> bool {
        forall|id: ResourceId| self.resources@.contains_key(id) ==> (#[trigger] self.resources@[id]).val().ty() == id.type_id
    }
}
impl<'a, T> Fetch<'a, T> {
    pub open spec fn wf(&self) -> bool { self.inner.target().ty() == type_of::<T>() }
    pub open spec fn cell(&self) -> int { self.inner.cell() }      // C08: the cell whose shared borrow the guard owns
}
impl<'a, T> FetchMut<'a, T> {
    pub open spec fn wf(&self) -> bool { self.inner.target().ty() == type_of::<T>() }
    pub open spec fn cell(&self) -> int { self.inner.cell() }      // C08: the cell whose exclusive borrow the guard owns
}
impl<'a, T> Entry<'a, T> {
    // C09: an entry of the world for the id of type T
    #[verifier::prophetic]
    pub open spec fn for_world(&self, old_w: &World, new_w: &World) -> bool {
        &&& self.inner.key() == rid::<T>()
        &&& self.inner.value() == old_w.resources@.get(rid::<T>())
        &&& new_w.resources@ == (match self.inner.final_value() { Some(v) => old_w.resources@.insert(rid::<T>(), v), None => old_w.resources@.remove(rid::<T>()) })
    }
}
