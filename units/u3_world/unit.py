# U3: World, its guards, ResourceId, checked / unchecked downcasts
W = "src/world/mod.rs"
RD = "src/world/res_downcast/mod.rs"
EN = "src/world/entry.rs"
SU = "src/world/setup.rs"
WI = r"^impl World$"
DR = r"^impl dyn Resource$"
KEYFIX = "broadcast use axiom_resource_id_key_model;"

TYPE_RULES = [
    (r"\bdyn\s+Resource\b", "DynRes"),
    (r"\bTypeId::of::<\s*([A-Za-z_0-9]+)\s*>\(\)", r"vx_type_of::<\1>()"),
    (r"\bAtomicRef::map\(\s*([^,]+?)\s*,\s*Box::as_ref\s*\)", r"vx_map_as_ref(\1)"),
    (r"\bAtomicRefMut::map\(\s*([^,]+?)\s*,\s*Box::as_mut\s*\)", r"vx_map_as_mut(\1)"),
    (r"\bBox::new\(r\)", "vx_box_res(r)"),
    (r"\bBox::new\(f\(\)\)", "vx_box_res_of(f())"),
    (r"\bunsafe\s*\{", "{"),
    (r"\bunsafe\s+fn\b", "fn"),
]
PUBF = [(r"(?m)^(\s*)([a-z_]+\s*:)", r"\1pub \2")]

def deref_inner(m):   # auto-deref of the guard in `self.inner.<method of dyn Resource>()`
    return [(r"self\.inner\.downcast_ref_unchecked\(\)", "self.inner.vx_deref().downcast_ref_unchecked()"),
            (r"self\.inner\.downcast_mut_unchecked\(\)", "self.inner.vx_deref_mut().downcast_mut_unchecked()")]

UNIT = dict(
    name="u3_world",
    crate_attrs=["#![feature(allocator_api)]"],
    prelude=["prelude.rs"],
    contracts=["world.vspec"],
    lib=[],
    type_rules=TYPE_RULES,
    derive_keep=("PartialEq", "Eq", "Hash"), structural=False,
    method_renames={},
    macro_rules={
        "panic": lambda a: "vx_panic()",
        "fetch_panic": lambda a: "vx_panic()",
        "eprintln": lambda a: "()",
        "assert_eq": lambda a: "vx_check(vx_type_eq(&(%s), &(%s)))" % tuple(x.strip() for x in a.split(",")[:2]),
    },
    items=[
        dict(key="ResourceId", file=W, kind="struct", name="ResourceId", rules=PUBF, erase_lifetimes=False),
        dict(key="Fetch", file=W, kind="struct", name="Fetch", rules=PUBF, erase_lifetimes=False),
        dict(key="FetchMut", file=W, kind="struct", name="FetchMut", rules=PUBF, erase_lifetimes=False),
        dict(key="World", file=W, kind="struct", name="World", rules=PUBF, erase_lifetimes=False),
        dict(key="StdEntry", file=EN, kind="type", name="StdEntry", erase_lifetimes=False),
        dict(key="Entry", file=EN, kind="struct", name="Entry", rules=PUBF, erase_lifetimes=False),
        dict(key="DefaultProvider", file=SU, kind="struct", name="DefaultProvider", erase_lifetimes=False),
        dict(key="PanicHandler", file=SU, kind="struct", name="PanicHandler", erase_lifetimes=False),
        dict(text=open(__file__.replace("unit.py", "lib.rs")).read()),
        dict(key="DynRes::downcast", file=RD, kind="fn", name="downcast", owner=DR, emit_owner="impl DynRes", erase_lifetimes=False),
        dict(key="DynRes::downcast_unchecked", file=RD, kind="fn", name="downcast_unchecked", owner=DR, emit_owner="impl DynRes", erase_lifetimes=False,
             sig_prefix="#[verifier::external_body]", assumed="unsafe pointer cast Box<dyn Resource> -> Box<T>; its safety precondition (concrete type is T) is made a `requires`"),
        dict(key="DynRes::is", file=RD, kind="fn", name="is", owner=DR, emit_owner="impl DynRes", erase_lifetimes=False,
             body_rules=[(r"TypeId::of::<T>\(\)\s*==\s*self\.type_id\(\)", "vx_type_eq(&TypeId::of::<T>(), &self.type_id())")]),
        dict(key="DynRes::downcast_ref", file=RD, kind="fn", name="downcast_ref", owner=DR, emit_owner="impl DynRes", erase_lifetimes=False),
        dict(key="DynRes::downcast_ref_unchecked", file=RD, kind="fn", name="downcast_ref_unchecked", owner=DR, emit_owner="impl DynRes", erase_lifetimes=False,
             sig_prefix="#[verifier::external_body]", assumed="unsafe pointer cast &dyn Resource -> &T; safety precondition made a `requires`"),
        dict(key="DynRes::downcast_mut", file=RD, kind="fn", name="downcast_mut", owner=DR, emit_owner="impl DynRes", erase_lifetimes=False),
        dict(key="DynRes::downcast_mut_unchecked", file=RD, kind="fn", name="downcast_mut_unchecked", owner=DR, emit_owner="impl DynRes", erase_lifetimes=False,
             sig_prefix="#[verifier::external_body]", assumed="unsafe pointer cast &mut dyn Resource -> &mut T; safety precondition made a `requires`"),
        dict(key="Fetch::deref", file=W, kind="fn", name="deref", owner=r"impl < T > Deref for Fetch <", emit_owner="impl<'a, T: Resource> Fetch<'a, T>", erase_lifetimes=False, body_rules=deref_inner(0)),
        dict(key="Fetch::clone", file=W, kind="fn", name="clone", owner=r"impl < T > Clone for Fetch <", emit_owner="impl<'a, T: Resource> Fetch<'a, T>", erase_lifetimes=False),
        dict(key="FetchMut::deref", file=W, kind="fn", name="deref", owner=r"impl < T > Deref for FetchMut <", emit_owner="impl<'a, T: Resource> FetchMut<'a, T>", erase_lifetimes=False, body_rules=deref_inner(0)),
        dict(key="FetchMut::deref_mut", file=W, kind="fn", name="deref_mut", owner=r"impl < T > DerefMut for FetchMut <", emit_owner="impl<'a, T: Resource> FetchMut<'a, T>", erase_lifetimes=False, body_rules=deref_inner(0)),
        dict(key="ResourceId::new", file=W, kind="fn", name="new", owner=r"^impl ResourceId$", emit_owner="impl ResourceId", erase_lifetimes=False),
        dict(key="ResourceId::from_type_id", file=W, kind="fn", name="from_type_id", owner=r"^impl ResourceId$", emit_owner="impl ResourceId", erase_lifetimes=False),
        dict(key="ResourceId::new_with_dynamic_id", file=W, kind="fn", name="new_with_dynamic_id", owner=r"^impl ResourceId$", emit_owner="impl ResourceId", erase_lifetimes=False),
        dict(key="ResourceId::from_type_id_and_dynamic_id", file=W, kind="fn", name="from_type_id_and_dynamic_id", owner=r"^impl ResourceId$", emit_owner="impl ResourceId", erase_lifetimes=False),
        dict(key="ResourceId::assert_same_type_id", file=W, kind="fn", name="assert_same_type_id", owner=r"^impl ResourceId$", emit_owner="impl ResourceId", erase_lifetimes=False),
        dict(key="World::insert", groups=["typed"], file=W, kind="fn", name="insert", owner=WI, emit_owner="impl World", erase_lifetimes=False, drop_where=False),
        dict(key="World::remove", groups=["typed"], file=W, kind="fn", name="remove", owner=WI, emit_owner="impl World", erase_lifetimes=False, drop_where=False),
        dict(key="World::has_value", file=W, kind="fn", name="has_value", owner=WI, emit_owner="impl World", erase_lifetimes=False, drop_where=False),
        dict(key="World::has_value_raw", file=W, kind="fn", name="has_value_raw", owner=WI, emit_owner="impl World", erase_lifetimes=False),
        dict(key="World::insert_by_id", groups=["typed"], file=W, kind="fn", name="insert_by_id", owner=WI, emit_owner="impl World", erase_lifetimes=False, drop_where=False),
        dict(key="World::remove_by_id", groups=["typed"], file=W, kind="fn", name="remove_by_id", owner=WI, emit_owner="impl World", erase_lifetimes=False, drop_where=False),
        dict(key="World::try_fetch", groups=["P"], file=W, kind="fn", name="try_fetch", owner=WI, emit_owner="impl World", erase_lifetimes=False, drop_where=False),
        dict(key="World::try_fetch_mut", groups=["P"], file=W, kind="fn", name="try_fetch_mut", owner=WI, emit_owner="impl World", erase_lifetimes=False, drop_where=False),
        dict(key="World::try_fetch_by_id", groups=["P"], file=W, kind="fn", name="try_fetch_by_id", owner=WI, emit_owner="impl World", erase_lifetimes=False, drop_where=False),
        dict(key="World::try_fetch_mut_by_id", groups=["P"], file=W, kind="fn", name="try_fetch_mut_by_id", owner=WI, emit_owner="impl World", erase_lifetimes=False, drop_where=False),
        dict(key="World::fetch", groups=["P"], file=W, kind="fn", name="fetch", owner=WI, emit_owner="impl World", erase_lifetimes=False, drop_where=False),
        dict(key="World::fetch_mut", groups=["P"], file=W, kind="fn", name="fetch_mut", owner=WI, emit_owner="impl World", erase_lifetimes=False, drop_where=False),
        dict(key="World::try_fetch_internal", file=W, kind="fn", name="try_fetch_internal", owner=WI, emit_owner="impl World", erase_lifetimes=False),
        dict(key="create_entry", file=EN, kind="fn", name="create_entry", erase_lifetimes=False, groups=["typed"]),
        dict(key="World::entry", file=W, kind="fn", name="entry", owner=WI, emit_owner="impl World", erase_lifetimes=False, drop_where=False, groups=["typed"]),
        dict(key="Entry::or_insert", file=EN, kind="fn", name="or_insert", owner=r"impl < 'a , T > Entry", emit_owner="impl<'a, T: Resource + 'a> Entry<'a, T>", erase_lifetimes=False, groups=["typed"]),
        dict(key="Entry::or_insert_with", file=EN, kind="fn", name="or_insert_with", owner=r"impl < 'a , T > Entry", emit_owner="impl<'a, T: Resource + 'a> Entry<'a, T>", erase_lifetimes=False, drop_where=False, groups=["P"]),
        dict(key="SetupHandler::setup", file=SU, kind="fn", name="setup", owner=r"^trait SetupHandler", emit_owner="pub trait SetupHandler<T>: Sized", erase_lifetimes=False),
        dict(key="DefaultProvider::setup", file=SU, kind="fn", name="setup", owner=r"SetupHandler < T > for DefaultProvider", emit_owner="impl<T: Default + Resource> SetupHandler<T> for DefaultProvider", erase_lifetimes=False, groups=["P"]),
        dict(key="PanicHandler::setup", file=SU, kind="fn", name="setup", owner=r"SetupHandler < T > for PanicHandler", emit_owner="impl<T: Resource> SetupHandler<T> for PanicHandler", erase_lifetimes=False, groups=["typed"],
             sig_rules=[(r"\(\s*_\s*:", "(world:")]),
    ],
)
