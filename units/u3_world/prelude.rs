// ======== U3 prelude: what surrounds World (std HashMap with ahash, TypeId, atomic_refcell, dyn Resource)
use std::collections::HashMap;
use std::any::TypeId;
use std::marker::PhantomData;
use vstd::std_specs::hash::*;

// ---- panics (rule R8); U3 is verified in mode P by default: "returns ==> guard held"
//@if T
#[verifier::external_body] pub fn vx_panic() -> ! requires false { panic!() }
pub fn vx_check(c: bool) requires c { }
pub fn vx_unwrap<T>(o: Option<T>) -> (r: T) requires o is Some ensures o == Some(r) { o.unwrap() }
//@endif
//@if P
#[verifier::external_body] pub fn vx_panic() -> ! { panic!() }
#[verifier::external_body] pub fn vx_check(c: bool) ensures c { assert!(c) }
#[verifier::external_body] pub fn vx_unwrap<T>(o: Option<T>) -> (r: T) ensures o == Some(r) { o.unwrap() }
//@endif

// ---- TypeId: an external type; `TypeId::of::<T>()` is a function of T, `==` is equality of ids
#[verifier::external_type_specification]
#[verifier::external_body]
pub struct ExTypeId(TypeId);
pub uninterp spec fn type_of<T>() -> TypeId;
#[verifier::external_body]
pub fn vx_type_of<T: 'static>() -> (r: TypeId) ensures r == type_of::<T>() { TypeId::of::<T>() }
#[verifier::external_body]
pub fn vx_type_eq(a: &TypeId, b: &TypeId) -> (r: bool) ensures r == (*a == *b) { a == b }

// ---- Resource: `Any + Send + Sync + 'static`, blanket-implemented
pub trait Resource: 'static {}
impl<T: 'static> Resource for T {}

// ---- `dyn Resource`: an opaque value with a concrete type
#[verifier::external_body]
pub struct DynRes { _p: u8 }
impl DynRes {
    pub uninterp spec fn ty(&self) -> TypeId;          // concrete type of the value behind the trait object
    pub uninterp spec fn addr(&self) -> int;           // its address (identity)
    #[verifier::external_body]
    pub fn type_id(&self) -> (r: TypeId) ensures r == self.ty() { unimplemented!() }
}
// the typed view of a trait object: `x` is the value of type T stored in `d`
pub uninterp spec fn holds<T>(d: &DynRes, x: &T) -> bool;
// Box::new(r) coerced to Box<dyn Resource>
#[verifier::external_body]
pub fn vx_box_res<R: Resource>(r: R) -> (b: Box<DynRes>) ensures b.ty() == type_of::<R>(), holds(&*b, &r) { unimplemented!() }

// ---- atomic_refcell (dependency, trusted): guards carry the identity of the cell they borrow and their kind
#[verifier::external_body] #[verifier::reject_recursive_types(T)]
pub struct AtomicRefCell<T> { _p: PhantomData<T> }
#[verifier::external_body] #[verifier::reject_recursive_types(T)]
pub struct AtomicRef<'a, T> { _p: PhantomData<&'a T> }
#[verifier::external_body] #[verifier::reject_recursive_types(T)]
pub struct AtomicRefMut<'a, T> { _p: PhantomData<&'a mut T> }
#[verifier::external_body]
pub struct BorrowError { _p: u8 }
impl<T> AtomicRefCell<T> {
    pub uninterp spec fn val(&self) -> T;              // the value inside
    pub uninterp spec fn cid(&self) -> int;            // identity of the cell (its borrow flag)
    #[verifier::external_body] pub fn new(v: T) -> (r: Self) ensures r.val() == v { unimplemented!() }
    #[verifier::external_body] pub fn into_inner(self) -> (r: T) ensures r == self.val() { unimplemented!() }
    // borrow / borrow_mut panic on a conflicting borrow (mode P: no precondition); try_* return Err instead
    #[verifier::external_body] pub fn borrow(&self) -> (r: AtomicRef<'_, T>) ensures r.cell() == self.cid(), *r.target() == self.val() { unimplemented!() }
    #[verifier::external_body] pub fn borrow_mut(&self) -> (r: AtomicRefMut<'_, T>) ensures r.cell() == self.cid(), *r.target() == self.val() { unimplemented!() }
    #[verifier::external_body] pub fn try_borrow(&self) -> (r: Result<AtomicRef<'_, T>, BorrowError>)
        ensures r is Ok ==> r->Ok_0.cell() == self.cid() && *r->Ok_0.target() == self.val() { unimplemented!() }
    #[verifier::external_body] pub fn try_borrow_mut(&self) -> (r: Result<AtomicRefMut<'_, T>, BorrowError>)
        ensures r is Ok ==> r->Ok_0.cell() == self.cid() && *r->Ok_0.target() == self.val() { unimplemented!() }
}
impl<'a, T> AtomicRef<'a, T> {
    pub uninterp spec fn cell(&self) -> int;           // the cell whose *shared* borrow this guard owns
    pub uninterp spec fn target(&self) -> &T;
    #[verifier::external_body] pub fn clone(orig: &AtomicRef<'a, T>) -> (r: AtomicRef<'a, T>) ensures r.cell() == orig.cell(), r.target() == orig.target() { unimplemented!() }
}
impl<'a, T> AtomicRefMut<'a, T> {
    pub uninterp spec fn cell(&self) -> int;           // the cell whose *exclusive* borrow this guard owns
    pub uninterp spec fn target(&self) -> &T;
}
// AtomicRef::map(g, Box::as_ref) / AtomicRefMut::map(g, Box::as_mut): same borrow, target narrowed to the boxed value
#[verifier::external_body]
pub fn vx_map_as_ref<'a>(g: AtomicRef<'a, Box<DynRes>>) -> (r: AtomicRef<'a, DynRes>) ensures r.cell() == g.cell(), *r.target() == **g.target() { unimplemented!() }
#[verifier::external_body]
pub fn vx_map_as_mut<'a>(g: AtomicRefMut<'a, Box<DynRes>>) -> (r: AtomicRefMut<'a, DynRes>) ensures r.cell() == g.cell(), *r.target() == **g.target() { unimplemented!() }
// auto-deref of a guard to call a `&self` / `&mut self` method of dyn Resource
impl<'a> AtomicRef<'a, DynRes> {
    #[verifier::external_body] pub fn vx_deref(&self) -> (r: &DynRes) ensures r == self.target() { unimplemented!() }
}
impl<'a> AtomicRefMut<'a, DynRes> {
    #[verifier::external_body] pub fn vx_deref(&self) -> (r: &DynRes) ensures r == self.target() { unimplemented!() }
    #[verifier::external_body] pub fn vx_deref_mut(&mut self) -> (r: &mut DynRes) ensures *r == *old(self).target(), final(r).ty() == r.ty() { unimplemented!() }
}
// std HashMap over ResourceId with ahash: assumed to follow vstd's hash-table model
pub broadcast axiom fn axiom_resource_id_key_model() ensures #[trigger] vstd::std_specs::hash::obeys_key_model::<ResourceId>();
// std::collections::hash_map::Entry::or_insert_with (no vstd specification): the value of an occupied entry is kept,
// a vacant one receives `default()`; the entry's final value is what the returned reference finally holds
pub assume_specification<'a, K, V, A: std::alloc::Allocator, F: FnOnce() -> V>[ std::collections::hash_map::Entry::<'a, K, V, A>::or_insert_with ](entry: std::collections::hash_map::Entry<'a, K, V, A>, default: F) -> (r: &'a mut V)
    requires entry.value() is None ==> default.requires(()),
    ensures
        match entry.value() { Some(v) => *r == v, None => default.ensures((), *r) },
        entry.final_value() == Some(*final(r));
// Box::new(f()) coerced to Box<dyn Resource>
#[verifier::external_body]
pub fn vx_box_res_of<R: Resource>(r: R) -> (b: Box<DynRes>) ensures b.ty() == type_of::<R>(), holds(&*b, &r) { unimplemented!() }
// `&mut AtomicRefCell<T>` used through its `&self` method borrow_mut
