# U6: the asynchronous dispatcher (src/dispatch/async_dispatcher.rs) on top of U1's preludes and Stage::execute
import os
import lower
AS = "src/dispatch/async_dispatcher.rs"
U1 = os.path.join(os.path.dirname(os.path.abspath(__file__)), "..", "u1_sched")
exec(open(os.path.join(U1, "unit.py")).read().split("UNIT = dict(")[0])   # TYPE_RULES, PUBF, NOISO, STAGE ... of U1

TYPE_RULES6 = TYPE_RULES + [
    (r"\bArc\s*<\s*RwLock\s*<\s*ThreadPoolWrapper\s*>\s*>", "PoolHandle"),
    (r"\bmpsc::channel\(\)", "vx_channel()"),
    (r"\bsnd\.send\(inner\)", "vx_send(&snd, inner)"),
    (r"\breplace\(&mut \*self,", "vx_replace(self,"),
    (r"\bmatch \*self \{", "match self {"),
    (r"\bref mut ", ""),
]
PRE = [
    (r"\brx\.recv\(\)\.expect\(\"Sender dropped\"\)", "vx_recv_expect(rx)"),
    (r"\brx\s*\.try_recv\(\)\s*\.map\(Some\)\s*\.or_else\(\|e\| match e \{\s*TryRecvError::Empty => Ok\(None\),\s*TryRecvError::Disconnected => Err\(e\),\s*\}\)\s*\.expect\(\"Sender dropped\"\)", "vx_try_recv_expect(rx)"),
]
RRT = [(r"^(pub )?(struct|enum)", r"#[verifier::reject_recursive_types(R)]\npub \2")]
AD = r"^impl < R > AsyncDispatcher"
ADO = "impl<R: VxWorldHolder> AsyncDispatcher<R>"
DO = r"^impl < R > Data < R >"

UNIT = dict(
    name="u6_async",
    prelude=["../u1_sched/prelude.rs", "../u1_sched/prelude_it.rs", "../u1_sched/prelude_b.rs", "prelude.rs"],
    contracts=["../u1_sched/stage.vspec", "../u1_sched/dispatch.vspec", "async.vspec"],
    allow_unused_contracts=True,
    lib=[],
    type_rules=TYPE_RULES6,
    method_renames={},
    macro_rules={"panic": lambda a: "vx_panic()", "unreachable": lambda a: "vx_unreachable()"},
    items=[
        dict(key="SystemId", file="src/dispatch/dispatcher.rs", kind="struct", name="SystemId"),
        dict(key="RunningTime", file="src/system.rs", kind="enum", name="RunningTime"),
        dict(key="MAX_SYSTEMS_PER_GROUP", file=STAGE, kind="const", name="MAX_SYSTEMS_PER_GROUP", rules=[(r"^const", "pub const")]),
        dict(key="Stage", file=STAGE, kind="struct", name="Stage", rules=PUBF),
        dict(key="ThreadLocal", file="src/dispatch/dispatcher.rs", kind="type", name="ThreadLocal"),
        dict(key="Inner", file=AS, kind="struct", name="Inner", rules=PUBF + RRT),
        dict(key="Data", file=AS, kind="enum", name="Data", rules=RRT),
        dict(key="AsyncDispatcher", file=AS, kind="struct", name="AsyncDispatcher", rules=PUBF + RRT),
        dict(text=open(os.path.join(U1, "lib_b.rs")).read().split("impl SendDispatcher {")[0]),
        dict(text=open(__file__.replace("unit.py", "lib.rs")).read()),
        dict(key="Stage::setup", file=STAGE, kind="fn", name="setup", owner=r"impl Stage\b", emit_owner="impl Stage", sig_prefix=NOISO, assumed="verified in unit U1", groups=["never"]),
        dict(key="Stage::execute", groups=["hand", "aonce"], file=STAGE, kind="fn", name="execute", owner=r"impl Stage\b", emit_owner="impl Stage", sig_prefix=NOISO),
        dict(key="Data::inner", groups=["hand", "aonce"], file=AS, kind="fn", name="inner", owner=DO, emit_owner="impl<R> Data<R>", pre_body_rules=PRE),
        dict(key="Data::inner_noblock", groups=["hand"], file=AS, kind="fn", name="inner_noblock", owner=DO, emit_owner="impl<R> Data<R>", pre_body_rules=PRE),
        dict(key="Data::sender", groups=["hand", "aonce"], file=AS, kind="fn", name="sender", owner=DO, emit_owner="impl<R> Data<R>"),
        dict(key="new_async", groups=["hand"], file=AS, kind="fn", name="new_async"),
        dict(key="AsyncDispatcher::setup", groups=["hand", "ahooks"], file=AS, kind="fn", name="setup", owner=AD, emit_owner=ADO, sig_prefix=NOISO, mut_iter_vars=["stages"],
             sig_rules=[(r"where\s*R\s*:\s*BorrowMut\s*<\s*World\s*>\s*,?", "")]),
        dict(key="AsyncDispatcher::dispatch", groups=["hand", "aonce"], file=AS, kind="fn", name="dispatch", owner=AD, emit_owner=ADO, sig_prefix=NOISO),
        dict(key="AsyncDispatcher::wait", groups=["hand", "tlw", "aonce"], file=AS, kind="fn", name="wait", owner=AD, emit_owner=ADO, sig_prefix=NOISO),
        dict(key="AsyncDispatcher::wait_without_tl", groups=["hand"], file=AS, kind="fn", name="wait_without_tl", owner=AD, emit_owner=ADO),
        dict(key="AsyncDispatcher::running", groups=["hand"], file=AS, kind="fn", name="running", owner=AD, emit_owner=ADO),
        dict(key="AsyncDispatcher::world", groups=["hand"], file=AS, kind="fn", name="world", owner=AD, emit_owner=ADO),
        dict(key="AsyncDispatcher::world_mut", groups=["hand"], file=AS, kind="fn", name="world_mut", owner=AD, emit_owner=ADO),
    ],
)
