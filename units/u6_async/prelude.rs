// ======== U6 prelude: std::sync::mpsc as a one-shot hand-off, BorrowMut<World>, rayon spawn
use std::sync::mpsc;
#[verifier::external_type_specification] #[verifier::external_body] #[verifier::reject_recursive_types(T)]
pub struct ExReceiver<T>(mpsc::Receiver<T>);
#[verifier::external_type_specification] #[verifier::external_body] #[verifier::reject_recursive_types(T)]
pub struct ExSender<T>(mpsc::Sender<T>);
pub uninterp spec fn rx_chan<T>(rx: &mpsc::Receiver<T>) -> int;
pub uninterp spec fn snd_chan<T>(snd: &mpsc::Sender<T>) -> int;
// the value handed over on a channel (the channels of this module are used once: created by `sender`, sent to once by
// the job as its last action, received once).  Prophetic: known to the receiver before the job has run.
pub uninterp spec fn sent<T>(chan: int) -> T;
#[verifier::external_body]
pub fn vx_channel<T>() -> (r: (mpsc::Sender<T>, mpsc::Receiver<T>)) ensures snd_chan(&r.0) == rx_chan(&r.1) { mpsc::channel() }
// Sender::send: assumed single use, so the value sent *is* the channel's value
#[verifier::external_body]
pub fn vx_send<T>(snd: &mpsc::Sender<T>, v: T) -> (r: Result<(), ()>) ensures sent::<T>(snd_chan(snd)) == v { unimplemented!() }
// Receiver::recv().expect(..): blocks until the value has been sent (a dropped sender panics)
#[verifier::external_body]
pub fn vx_recv_expect<T>(rx: &mpsc::Receiver<T>) -> (r: T) ensures r == sent::<T>(rx_chan(rx)) { rx.recv().expect("Sender dropped") }
// rx.try_recv().map(Some).or_else(|e| match e { Empty => Ok(None), Disconnected => Err(e) }).expect(..)   (rule R22)
#[verifier::external_body]
pub fn vx_try_recv_expect<T>(rx: &mut mpsc::Receiver<T>) -> (r: Option<T>) ensures r is Some ==> r->0 == sent::<T>(rx_chan(&*old(rx))), rx_chan(&*final(rx)) == rx_chan(&*old(rx)) { unimplemented!() }
// std::mem::replace
#[verifier::external_body]
pub fn vx_replace<T>(dest: &mut T, src: T) -> (r: T) ensures r == *old(dest), *final(dest) == src { std::mem::replace(dest, src) }
// R: Borrow<World> + BorrowMut<World>
pub trait VxWorldHolder: Sized {
    spec fn wv(&self) -> World;
    fn borrow(&self) -> (r: &World) ensures *r == self.wv();
    fn borrow_mut(&mut self) -> (r: &mut World) ensures *r == old(self).wv(), final(self).wv() == *final(r);
}
// rayon::ThreadPool::spawn(f): runs f exactly once, some time later (trusted; rule R11 inlines f)
pub fn vx_pool_spawn(pool: &Pool) { }
