// ======== U6 spec vocabulary (C15)
impl<R> Data<R> {
    // the state as it will be once the background job (if any) has handed it back
    pub open spec fn settled(&self) -> Inner<R> {
        match self { Data::Inner(i) => *i, Data::Rx(rx) => sent::<Inner<R>>(rx_chan(rx)) }
    }
}
