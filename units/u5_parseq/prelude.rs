// ======== U5 prelude: rayon pool as seen by par_seq.rs
pub trait VxBorrowPool { fn borrow(&self) -> (r: &Pool); }     // P: Borrow<ThreadPool>
impl Pool {
    // ThreadPool::current_thread_index(): whether the caller is a worker of this pool (any answer)
    #[verifier::external_body] pub fn current_thread_index(&self) -> (r: Option<usize>) { unimplemented!() }
}
// cfg!(debug_assertions) (rule R9): a constant of the build; both values are verified
//@if debug_assertions
pub fn vx_debug_assertions() -> (r: bool) ensures r { true }
//@endif
//@if !debug_assertions
pub fn vx_debug_assertions() -> (r: bool) ensures !r { false }
//@endif
pub open spec fn spec_debug_assertions() -> bool {
//@if debug_assertions
    true
//@endif
//@if !debug_assertions
    false
//@endif
}
// `()` as system data / accessor (the real impls are verified in unit U2): declares nothing, sets up nothing
impl Accessor for () {
    open spec fn spec_r(&self) -> Seq<ResourceId> { Seq::empty() }
    open spec fn spec_w(&self) -> Seq<ResourceId> { Seq::empty() }
    fn try_new() -> (r: Option<Self>) { None }
    fn reads(&self) -> (r: Vec<ResourceId>) { Vec::new() }
    fn writes(&self) -> (r: Vec<ResourceId>) { Vec::new() }
}
impl DynamicSystemData for () {
    type Accessor = ();
    open spec fn spec_dyn_setup_trace(accessor: &()) -> Seq<int> { Seq::empty() }
    fn setup(accessor: &(), world: &mut World) { }
    fn fetch(access: &(), world: &World) -> (r: Self) { }
}
