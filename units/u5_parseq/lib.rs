// ======== U5 spec vocabulary (C16)
pub open spec fn par_conflict(head_reads: Seq<ResourceId>, head_writes: Seq<ResourceId>, sys_reads: Seq<ResourceId>, sys_writes: Seq<ResourceId>) -> bool {
    inter(head_writes, sys_reads) || inter(head_writes, sys_writes) || inter(head_reads, sys_writes)
}
