# U5: par/seq trees (src/dispatch/par_seq.rs) on top of U1's preludes
import lower
import os
PS = "src/dispatch/par_seq.rs"
U1 = os.path.join(os.path.dirname(os.path.abspath(__file__)), "..", "u1_sched")
u1src = open(os.path.join(U1, "unit.py")).read()
exec(u1src.split("UNIT = dict(")[0])   # TYPE_RULES, PUBF, NOISO ... of U1

RWP = """pub trait RunWithPool: Sized {
    // C16 vocabulary: accumulated access of the node, what its setup logs, and "every leaf ran k more times"
    spec fn rw_reads(&self) -> Seq<ResourceId>;
    spec fn rw_writes(&self) -> Seq<ResourceId>;
    spec fn rw_setup_trace(&self) -> Seq<int>;
    spec fn rw_ran(&self, pre: &Self, k: nat) -> bool;
    spec fn rw_same(&self, pre: &Self) -> bool;"""
LEAF = """impl<T: System> RunWithPool for T {
    // a leaf is a system: its accessor's declaration, its own setup, one run
    open spec fn rw_reads(&self) -> Seq<ResourceId> { self.spec_ident().reads }
    open spec fn rw_writes(&self) -> Seq<ResourceId> { self.spec_ident().writes }
    open spec fn rw_setup_trace(&self) -> Seq<int> { self.spec_ident().setup }
    open spec fn rw_ran(&self, pre: &Self, k: nat) -> bool { self.spec_ran(pre, k) }
    open spec fn rw_same(&self, pre: &Self) -> bool { self.spec_ident() == pre.spec_ident() }"""
def node(name):
    return """impl<H: RunWithPool, T: RunWithPool> RunWithPool for %s<H, T> {
    // a node is the union / concatenation / conjunction of its two children
    open spec fn rw_reads(&self) -> Seq<ResourceId> { self.head.rw_reads() + self.tail.rw_reads() }
    open spec fn rw_writes(&self) -> Seq<ResourceId> { self.head.rw_writes() + self.tail.rw_writes() }
    open spec fn rw_setup_trace(&self) -> Seq<int> { self.head.rw_setup_trace() + self.tail.rw_setup_trace() }
    open spec fn rw_ran(&self, pre: &Self, k: nat) -> bool { self.head.rw_ran(&pre.head, k) && self.tail.rw_ran(&pre.tail, k) }
    open spec fn rw_same(&self, pre: &Self) -> bool { self.head.rw_same(&pre.head) && self.tail.rw_same(&pre.tail) }""" % name
NIL_SYS = """impl System for Nil {
    type SystemData = ();
    open spec fn spec_ident(&self) -> Ident { Ident { gid: 0, reads: Seq::empty(), writes: Seq::empty(), setup: Seq::empty(), dispose: Seq::empty() } }
    open spec fn spec_time(&self) -> RunningTime { RunningTime::Average }
    open spec fn spec_ran(&self, pre: &Self, k: nat) -> bool { true }"""
RN_PS = """impl<P: VxBorrowPool, T: RunWithPool> RunNow for ParSeq<P, T> {
    open spec fn rn_ident(&self) -> Ident { Ident { gid: 0, reads: Seq::empty(), writes: Seq::empty(), setup: self.run.rw_setup_trace(), dispose: Seq::empty() } }"""

def fn4(prefix, owner, emit_owner, extra=None):
    extra = extra or {}
    return [dict(dict(key="%s::%s" % (prefix, f), file=PS, kind="fn", name=f, owner=owner, emit_owner=emit_owner), **extra.get(f, {})) for f in ("setup", "run", "reads", "writes")]

items = [
    dict(key="SystemId", file="src/dispatch/dispatcher.rs", kind="struct", name="SystemId"),
    dict(key="RunningTime", file="src/system.rs", kind="enum", name="RunningTime"),
    dict(key="Nil", file=PS, kind="struct", name="Nil"),
    dict(key="Par", file=PS, kind="struct", name="Par", rules=PUBF),
    dict(key="Seq", file=PS, kind="struct", name="Seq", rules=PUBF),
    dict(key="ParSeq", file=PS, kind="struct", name="ParSeq", rules=PUBF),
    dict(text="pub open spec fn inter<T>(a: Seq<T>, b: Seq<T>) -> bool {\n    exists|i: int, j: int| 0 <= i < a.len() && 0 <= j < b.len() && a[i] == b[j]\n}\n" + open(os.path.join(U1, "lib_a.rs")).read().split("pub proof fn lemma_concat_contains")[1].join(["pub proof fn lemma_concat_contains", ""]) if False else
         "pub open spec fn inter<T>(a: Seq<T>, b: Seq<T>) -> bool {\n    exists|i: int, j: int| 0 <= i < a.len() && 0 <= j < b.len() && a[i] == b[j]\n}\npub proof fn lemma_concat_contains" + open(os.path.join(U1, "lib_a.rs")).read().split("pub proof fn lemma_concat_contains")[1]),
    dict(text=open(__file__.replace("unit.py", "lib.rs")).read()),
    dict(key="check_intersection", file="src/dispatch/util.rs", kind="fn", name="check_intersection", drop_generics=True,
         sig_rules=[(r"\bfn check_intersection", "fn check_intersection<T: PartialEq + Structural>"), (r"\bmut i\s*:\s*I\b", "mut i: It<T>"), (r"\bj\s*:\s*J\b", "j: It<T>")]),
]
items += fn4("RunWithPool", r"^trait RunWithPool", RWP, dict(run=dict(sig_rules=[(r"&ThreadPool", "&Pool")])))
items += [dict(key="System_for_Nil::run", file=PS, kind="fn", name="run", owner=r"System < '_ > for Nil", emit_owner=NIL_SYS, sig_rules=[(r"\(\s*&mut self\s*,\s*_\s*:", "(&mut self, data:")]),
          dict(key="System_for_Nil::running_time", file=PS, kind="fn", name="running_time", owner=r"System < '_ > for Nil", emit_owner=NIL_SYS, fallback=dict(file="src/system.rs", kind="fn", name="running_time", owner=r"^trait System <")),
          dict(key="System_for_Nil::accessor", file=PS, kind="fn", name="accessor", owner=r"System < '_ > for Nil", emit_owner=NIL_SYS, assumed="System::accessor default body (AccessorTy::try_new().expect(..)): the accessor of `()` declares nothing (verified in U2)", sig_prefix="#[verifier::external_body]",
               fallback=dict(file="src/system.rs", kind="fn", name="accessor", owner=r"^trait System <"), sig_rules=[(r"AccessorCow\s*<\s*'a\s*,\s*'b\s*,\s*Self\s*>", "AccessorCow<'_, ()>"), (r"accessor<'b>\(&'b self\)", "accessor(&self)")]),
          dict(key="System_for_Nil::setup", file=PS, kind="fn", name="setup", owner=r"System < '_ > for Nil", emit_owner=NIL_SYS, assumed="System::setup default body: <() as DynamicSystemData>::setup, which logs nothing (verified in U2)", sig_prefix="#[verifier::external_body]",
               fallback=dict(file="src/system.rs", kind="fn", name="setup", owner=r"^trait System <")),
          dict(key="System_for_Nil::dispose", file=PS, kind="fn", name="dispose", owner=r"System < '_ > for Nil", emit_owner=NIL_SYS, fallback=dict(file="src/system.rs", kind="fn", name="dispose", owner=r"^trait System <"))]
RN_T = 'impl<T: System> RunNow for T {\n    open spec fn rn_ident(&self) -> Ident { self.spec_ident() }'
items += [
    dict(key="RunNow_for_System::run_now", file="src/system.rs", kind="fn", name="run_now", owner=r"impl < 'a , T > RunNow < 'a > for T", emit_owner=RN_T, body_rules=[(r"&\s*self\.accessor\(\)", "self.accessor().vx_deref()")]),
    dict(key="RunNow_for_System::setup", file="src/system.rs", kind="fn", name="setup", owner=r"impl < 'a , T > RunNow < 'a > for T", emit_owner=RN_T),
    dict(key="RunNow_for_System::dispose", file="src/system.rs", kind="fn", name="dispose", owner=r"impl < 'a , T > RunNow < 'a > for T", emit_owner=RN_T,
         sig_rules=[(r"self\s*:\s*Box\s*<\s*Self\s*>", "self")], body_rules=[(r"\*\s*self\b", "self")]),
]
POOL = [(r"&ThreadPool", "&Pool")]
items += fn4("Leaf", r"impl < 'a , T > RunWithPool < 'a > for T", LEAF, dict(run=dict(sig_rules=POOL + [(r",\s*_\s*:", ", pool:")])))
items += fn4("ParNode", r"RunWithPool < 'a > for Par <", node("Par"), dict(run=dict(sig_rules=POOL)))
items += fn4("SeqNode", r"RunWithPool < 'a > for Seq <", node("PsSeq"), dict(run=dict(sig_rules=POOL)))
items += [
    dict(key="Par::new", file=PS, kind="fn", name="new", owner=r"impl < H > Par < H , Nil >", emit_owner="impl<H> Par<H, Nil>"),
    dict(key="Par::with", file=PS, kind="fn", name="with", owner=r"impl < H > Par < H , Nil >", emit_owner="impl<H> Par<H, Nil>", sig_prefix=NOISO,
         sig_rules=[(r"\bwith<T>\(self, sys: T\)", "with<T: RunWithPool>(self, sys: T)")], sig_where="H: RunWithPool",
         pre_body_rules=[(r"cfg!\(debug_assertions\)", "vx_debug_assertions()")]),
    dict(key="Seq::new", file=PS, kind="fn", name="new", owner=r"impl < H > Seq < H , Nil >", emit_owner="impl<H> PsSeq<H, Nil>"),
    dict(key="Seq::with", file=PS, kind="fn", name="with", owner=r"impl < H > Seq < H , Nil >", emit_owner="impl<H> PsSeq<H, Nil>"),
    dict(key="ParSeq::new", file=PS, kind="fn", name="new", owner=r"^impl < P , T > ParSeq", emit_owner="impl<P: VxBorrowPool, T: RunWithPool> ParSeq<P, T>"),
    dict(key="ParSeq::setup", file=PS, kind="fn", name="setup", owner=r"^impl < P , T > ParSeq", emit_owner="impl<P: VxBorrowPool, T: RunWithPool> ParSeq<P, T>"),
    dict(key="ParSeq::dispatch", file=PS, kind="fn", name="dispatch", owner=r"^impl < P , T > ParSeq", emit_owner="impl<P: VxBorrowPool, T: RunWithPool> ParSeq<P, T>"),
    dict(key="RunNow_for_ParSeq::run_now", file=PS, kind="fn", name="run_now", owner=r"RunNow < '_ > for ParSeq", emit_owner=RN_PS),
    dict(key="RunNow_for_ParSeq::setup", file=PS, kind="fn", name="setup", owner=r"RunNow < '_ > for ParSeq", emit_owner=RN_PS),
    dict(key="RunNow_for_ParSeq::dispose", file=PS, kind="fn", name="dispose", owner=r"RunNow < '_ > for ParSeq", emit_owner=RN_PS, need_contract=False,
         fallback=dict(file="src/system.rs", kind="fn", name="dispose", owner=r"^trait RunNow"), sig_rules=[(r"self\s*:\s*Box\s*<\s*Self\s*>", "self")]),
]

UNIT = dict(
    name="u5_parseq",
    prelude=["../u1_sched/prelude.rs", "../u1_sched/prelude_it.rs", "../u1_sched/prelude_b.rs", "prelude.rs"],
    contracts=["../u1_sched/stage.vspec", "../u1_sched/dispatch.vspec", "parseq.vspec"],
    allow_unused_contracts=True,
    lib=[],
    type_rules=TYPE_RULES + [(r"\bSeq\b", "PsSeq")],   # shred's `Seq` node clashes with vstd's `Seq`; renamed in the extracted text only
    method_renames={"iter": "vx_iter", "extend": "vx_extend"},
    macro_rules={
        "panic": lambda a: "vx_panic()",
        "debug_assert": lambda a: "vx_check(%s)" % lower._split_args(a)[0],
    },
    items=items,
)
