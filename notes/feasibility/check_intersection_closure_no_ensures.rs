use vstd::prelude::*;
use vstd::std_specs::iter::IteratorSpec;
verus! {
pub open spec fn inter<T>(a: Seq<T>, b: Seq<T>) -> bool {
    exists|i: int, j: int| 0 <= i < a.len() && 0 <= j < b.len() && a[i] == b[j]
}
pub fn check_intersection<'i, 'j, T, I, J>(mut i: I, j: J) -> (r: bool)
where
    I: Iterator<Item = &'i T>,
    J: Iterator<Item = &'j T> + Clone,
    T: PartialEq + 'i + 'j,
    requires
        i.obeys_prophetic_iter_laws(),
        j.obeys_prophetic_iter_laws(),
        forall|c: J| cloned(j, c) ==> c.obeys_prophetic_iter_laws() && c.remaining() == j.remaining(),
        forall|a: &T, b: &T| #[trigger] T::eq.ensures((a, b), true) <==> *a == *b,
        forall|a: &T, b: &T| #[trigger] T::eq.ensures((a, b), false) <==> *a != *b,
        forall|a: &T, b: &T| #[trigger] T::eq.requires((a, b)),
    ensures
        r == inter(i.remaining(), j.remaining()),
{
    i.any(|elem_i| j.clone().any(|elem_j| *elem_j == *elem_i))
}
}
fn main(){}
