use vstd::prelude::*;
use std::collections::HashMap;
use std::collections::hash_map::Entry;
verus! {
pub struct M { pub m: HashMap<u64, u64> }
impl M {
    pub fn e(&mut self, id: u64) {
        let e = self.m.entry(id);
        if let Entry::Vacant(v) = e { v.insert(3); }
    }
}
}
fn main(){}
