use vstd::prelude::*;
use std::sync::mpsc;
verus! {
#[verifier::external_type_specification]
#[verifier::external_body]
#[verifier::reject_recursive_types(T)]
pub struct ExReceiver<T>(mpsc::Receiver<T>);

pub struct Inner<R> { pub world: R }

#[verifier::reject_recursive_types(R)]
pub enum Data<R> {
    Inner(Inner<R>),
    Rx(mpsc::Receiver<Inner<R>>),
}
#[verifier::external_body]
fn recv_expect<R>(rx: &mpsc::Receiver<Inner<R>>) -> Inner<R> { rx.recv().expect("Sender dropped") }

impl<R> Data<R> {
    fn inner(&mut self) -> (r: &mut Inner<R>)
        ensures (*final(self)) is Inner
    {
        *self = match self {
            Data::Inner(inner) => return inner,
            Data::Rx(rx) => Data::Inner(recv_expect(rx)),
        };

        self.inner()
    }
}
}
fn main(){}
