#!/usr/bin/env python3
"""Condense Verus --log vir output into readable pseudo-code (best effort)."""
import sys, re
def tokenize(s):
    i=0;n=len(s)
    while i<n:
        c=s[i]
        if c.isspace(): i+=1; continue
        if c==';' and s[i:i+2]==';;':
            j=s.find('\n',i); 
            if j<0:j=n
            yield ('c',s[i:j]); i=j; continue
        if c in '()': yield (c,c); i+=1; continue
        if c=='"':
            j=i+1
            while s[j]!='"':
                if s[j]=='\\': j+=1
                j+=1
            yield ('a',s[i:j+1]); i=j+1; continue
        j=i
        while j<n and not s[j].isspace() and s[j] not in '()': j+=1
        yield ('a',s[i:j]); i=j
def parse(toks):
    stack=[[]]
    for k,v in toks:
        if k=='(':
            stack.append([])
        elif k==')':
            x=stack.pop(); stack[-1].append(x)
        elif k=='c': stack[-1].append(('comment',v))
        else: stack[-1].append(v)
    return stack[0]
def kw(l,key):
    for i,x in enumerate(l):
        if x==key and i+1<len(l): return l[i+1]
    return None
def path(x):
    if isinstance(x,list) and len(x)>=3 and x[0]=='Fun' and x[1]==':path': return x[2]
    return str(x)
def short(p):
    p=str(p)
    p=p.replace('vstd::std_specs::iter::','').replace('core::iter::traits::iterator::','').replace('vstd::seq::','').replace('vstd::seq_lib::','')
    return p
def typ(t):
    if not isinstance(t,list): return str(t)
    if t and t[0]=='Typ':
        k=t[1]
        if k=='TypParam': return t[2].strip('"')
        if k=='Bool': return 'bool'
        if k=='Int': return 'int'
        if k=='Datatype':
            d=t[2]; args=t[3] if len(t)>3 else []
            name=d[2] if d[1]=='Path' else 'Tuple'
            return short(name)+('<'+','.join(typ(a) for a in args)+'>' if args else '')
        if k=='Projection':
            a=kw(t,':trait_typ_args'); return '<'+','.join(typ(x) for x in a)+'>::'+str(kw(t,':name')).strip('"')
        if k=='Decorate': return '&'+typ(t[-1]) if 'Ref' in str(t[2]) else typ(t[-1])
        if k=='MutRef': return '&mut '+typ(t[2])
        return ' '.join(typ(x) for x in t[1:])
    return str(t)
def ex(e):
    if not isinstance(e,list): return str(e)
    if not e: return '()'
    if e[0]=='@@': return ex(e[1])
    if e[0]=='>':
        k=e[1]
        if k=='Const': return str(e[2][-1]) if isinstance(e[2],list) else str(e[2])
        if k=='ReadPlace': return place(e[2])
        if k=='Var': return var(e[2])
        if k=='Call':
            tgt=kw(e,':target'); args=kw(e,':args') or []
            if tgt[1]=='Fun': f=short(path(tgt[3]))
            elif tgt[1]=='BuiltinSpecFun': f=tgt[2][1]
            else: f=str(tgt[1])
            return f+'('+', '.join(ex(a) for a in args)+')'
        if k=='Quant':
            q=e[2][0]; bs=e[3]; body=e[4]
            return ('forall' if 'Forall' in str(q) else 'exists')+'|'+','.join(b[1].split('~')[0] for b in bs)+'| '+ex(body)
        if k=='Unary':
            op=e[2]
            if 'Trigger' in str(op): return ex(e[3])
            if 'Not' in str(op): return '!('+ex(e[3])+')'
            if 'MutRefFuture' in str(op): return 'final('+ex(e[3])+')'
            return str(op[1])+'('+ex(e[3])+')'
        if k=='UnaryOpr':
            op=e[2]
            if op[1]=='IsVariant': return ex(e[3])+' is '+str(kw(op,':variant')).strip('"')
            if op[1]=='Field': return ex(e[3])+'.'+str(kw(op[2] if isinstance(op[2],list) else op,':field')).strip('"')
            return str(op[1])+'('+ex(e[3])+')'
        if k=='Binary':
            op=e[2]; o=str(op[1:]) 
            m={'Eq':'==','Ne':'!=','And':'&&','Or':'||','Implies':'==>'}
            sym=None
            for a,b in m.items():
                if a in o: sym=b;break
            if 'Inequality' in o:
                sym={'Le':'<=','Lt':'<','Ge':'>=','Gt':'>'}[re.search(r'(Le|Lt|Ge|Gt)',o).group(1)]
            if 'Arith' in o:
                sym={'Add':'+','Sub':'-','Mul':'*'}.get(re.search(r'(Add|Sub|Mul|EuclideanDiv|EuclideanMod)',o).group(1),'?')
            return '('+ex(e[3])+' '+(sym or o)+' '+ex(e[4])+')'
        if k=='Logical':
            op=str(e[2]); sym='==>' if 'Implies' in op else ('&&' if 'And' in op else ('||' if 'Or' in op else op))
            return '('+ex(e[3])+' '+sym+' '+ex(e[4])+')'
        if k=='Multi':
            ops=re.findall(r'(Le|Lt|Ge|Gt|Eq)',str(e[2])); es=e[3]
            m={'Le':'<=','Lt':'<','Ge':'>=','Gt':'>','Eq':'=='}
            s=ex(es[0])
            for o,x in zip(ops,es[1:]): s+=' '+m[o]+' '+ex(x)
            return '('+s+')'
        if k=='Old': return 'old('+ex(e[2])+')'
        if k=='Ctor':
            fields=e[4]; return str(e[3]).strip('"')+'('+', '.join(ex(f[2]) for f in fields)+')'
        if k=='Block': return ex(e[-1])
        if k=='If': return 'if '+ex(e[2])+' {'+ex(e[3])+'} else {'+(ex(e[4]) if len(e)>4 else '')+'}'
        if k=='Match': return 'match '+ex(e[2])+' {..}'
        return k+'('+', '.join(ex(x) for x in e[2:])+')'
    return '['+' '.join(ex(x) for x in e)+']'
def var(v):
    if isinstance(v,list) and v[0]=='VarIdent': return v[1].strip('"')
    return str(v)
def place(p):
    if isinstance(p,list):
        if p[0]=='@@': return place(p[1])
        if p[0]=='Place':
            k=p[1]
            if k=='Local': return var(p[2])
            if k=='DerefMut': return '*'+place(p[2])
            if k=='Temporary': return ex(p[2])
            if k=='Field': return place(p[-1])+'.'+str(p[2])
            return k+'('+','.join(place(x) for x in p[2:])+')'
    return ex(p)
def fun(f, out):
    name=None
    for x in f:
        if isinstance(x,list) and x and x[0]=='Fun': name=x[2]
    if kw(f,':name'): name=path(kw(f,':name'))
    params=kw(f,':params') or []
    ps=[]
    for p in params:
        ps.append(var(kw(p,':name'))+': '+typ(kw(p,':typ')))
    ret=kw(f,':ret'); rs=''
    if ret: rs=' -> ('+var(kw(ret,':name'))+': '+typ(kw(ret,':typ'))+')'
    out.append('fn '+str(name)+'('+', '.join(ps)+')'+rs+'   ['+str(kw(f,':mode'))+']')
    for r in (kw(f,':require') or []): out.append('    requires '+ex(r))
    ens=kw(f,':ensure') or []
    if ens and ens[0]=='tuple': ens=ens[1]+ (ens[2] if len(ens)>2 else [])
    for r in ens: out.append('    ensures '+ex(r))
    b=kw(f,':body')
    if b and b!='None' and str(kw(f,':mode'))=='Spec': out.append('    body '+ex(b)[:1500])
def main():
    s=open(sys.argv[1]).read(); pat=sys.argv[2] if len(sys.argv)>2 else ''
    tree=parse(tokenize(s)); out=[]
    for item in tree:
        if isinstance(item,list) and item and item[0]=='Function':
            nm=str(item[:6])
            if pat in nm:
                try: fun(item,out)
                except Exception as ex_: out.append('!! error '+repr(ex_)+' in '+nm[:200])
                out.append('')
    print('\n'.join(out))
main()
