use vstd::prelude::*;
verus! {
pub struct Sys { pub runs: Ghost<nat>, pub p: u8 }
impl Sys {
    #[verifier::external_body]
    fn run_now(&mut self) ensures final(self).runs@ == old(self).runs@ + 1 { }
}
fn seq(groups: &mut Vec<Vec<Sys>>)
    ensures final(groups).len() == old(groups).len(),
      forall|g: int, p: int| 0 <= g < old(groups).len() && 0 <= p < old(groups)[g].len() ==> final(groups)[g].len() == old(groups)[g].len() && #[trigger] final(groups)[g][p].runs@ == old(groups)[g][p].runs@ + 1
{
    for group in groups.iter_mut() {
        for system in group.iter_mut() {
            system.run_now();
        }
    }
    proof { assume(false); }
}
}
fn main(){}
