use shred::*;
use std::sync::{Arc, Mutex};
struct S;
impl<'a> System<'a> for S { type SystemData = (); fn run(&mut self, _: ()) {} }
struct W;
impl<'a> System<'a> for W { type SystemData = Write<'a, u32>; fn run(&mut self, _: Self::SystemData) {} }
struct D(Arc<Mutex<Vec<&'static str>>>, &'static str);
impl<'a> System<'a> for D { type SystemData = (); fn run(&mut self, _: ()) {} fn dispose(self, _: &mut World) { self.0.lock().unwrap().push(self.1); } }
struct Ctl;
impl<'a,'b,'c> BatchController<'a,'b,'c> for Ctl { type BatchSystemData = (); fn run(&mut self, w: &'c World, d: &mut Dispatcher<'a,'b>) { d.dispatch(w); } }
struct Tl(std::thread::ThreadId, Arc<Mutex<Vec<bool>>>);
impl<'a> RunNow<'a> for Tl { fn run_now(&mut self, _: &'a World) { self.1.lock().unwrap().push(std::thread::current().id()==self.0); } fn setup(&mut self, _: &mut World) {} }

fn main() {
    // C20: unnamed system + Debug
    let r = std::panic::catch_unwind(|| { let b = DispatcherBuilder::new().with(S, "", &[]); format!("{:?}", b) });
    println!("C20 unnamed debug: {:?}", r.as_ref().map(|s| s.len()).map_err(|_| "PANIC"));
    // C10: duplicate dep
    let b = DispatcherBuilder::new().with(S, "a", &[]).with(W, "w1", &[]).with(W, "w2", &[]).with(S, "b", &["a", "a"]);
    println!("C10 dup dep plan:\n{:?}", b);
    let b = DispatcherBuilder::new().with(S, "a", &[]).with(W, "w1", &[]).with(W, "w2", &[]).with(S, "b", &["a"]);
    println!("C10 single dep plan:\n{:?}", b);
    // C10: dep before barrier
    let b = DispatcherBuilder::new().with(S, "a", &[]).with_barrier().with(W, "w1", &[]).with(W, "w2", &[]).with(S, "b", &["a"]).with(S, "c", &[]);
    println!("C10 dep before barrier plan:\n{:?}", b);
    // C13: dispose inside batch
    let log = Arc::new(Mutex::new(Vec::new()));
    let inner = DispatcherBuilder::new().with(D(log.clone(), "inner"), "i", &[]);
    let d = DispatcherBuilder::new().with(D(log.clone(), "outer"), "o", &[]).with_batch(Ctl, inner, "batch", &[]).build();
    let mut w = World::empty();
    d.dispose(&mut w);
    println!("C13 disposed: {:?}", log.lock().unwrap());
    // C12: thread-local inside batch runs on pool worker?
    let flags = Arc::new(Mutex::new(Vec::new()));
    let inner = DispatcherBuilder::new().with_thread_local(Tl(std::thread::current().id(), flags.clone()));
    let mut d = DispatcherBuilder::new().with_batch(Ctl, inner, "batch", &[]).build();
    let w = World::empty();
    d.dispatch(&w);
    println!("C12 inner thread-local ran on caller thread: {:?}", flags.lock().unwrap());
}
