use vstd::prelude::*;
use std::collections::HashMap;
use std::any::TypeId;
verus! {
#[verifier::external_type_specification]
#[verifier::external_body]
pub struct ExTypeId(TypeId);

pub struct ResourceId { pub type_id: TypeId, pub dynamic_id: u64 }

#[verifier::external_body]
pub struct Cell { _p: u8 }

pub struct World { pub resources: HashMap<u64, Cell> }

impl World {
    pub fn has_value_raw(&self, id: u64) -> (r: bool)
        requires vstd::std_specs::hash::obeys_key_model::<u64>(), vstd::std_specs::hash::builds_valid_hashers::<std::collections::hash_map::RandomState>(),
        ensures r == self.resources@.contains_key(id)
    {
        self.resources.contains_key(&id)
    }
    pub fn ins(&mut self, id: u64, c: Cell)
        ensures final(self).resources@ == old(self).resources@.insert(id, c)
    {
        self.resources.insert(id, c);
    }
    pub fn rem(&mut self, id: u64) -> (r: Option<Cell>)
        ensures final(self).resources@ == old(self).resources@.remove(id)
    {
        self.resources.remove(&id)
    }
}
fn teq(a: TypeId, b: TypeId) -> bool { a == b }
}
fn main(){}
