use vstd::prelude::*;
use vstd::multiset::*;
verus! {
#[verifier::external_body]
pub struct ResourceId { _p: u8 }
#[verifier::external_body]
pub struct World { _p: u8 }
pub struct Guard { pub id: ResourceId, pub excl: bool }

impl World {
    pub uninterp spec fn present(&self, id: ResourceId) -> bool;
}
pub open spec fn guards_of(ids: Seq<ResourceId>, excl: bool, w: &World) -> Multiset<Guard>
    decreases ids.len()
{
    if ids.len() == 0 { Multiset::empty() } else {
        let rest = guards_of(ids.drop_last(), excl, w);
        if w.present(ids.last()) { rest.insert(Guard { id: ids.last(), excl }) } else { rest }
    }
}
pub proof fn guards_of_concat(a: Seq<ResourceId>, b: Seq<ResourceId>, excl: bool, w: &World)
    ensures guards_of(a + b, excl, w) =~= guards_of(a, excl, w).add(guards_of(b, excl, w))
    decreases b.len()
{
    if b.len() == 0 { assert(a + b =~= a); } else {
        assert((a + b).drop_last() =~= a + b.drop_last());
        assert((a+b).last() == b.last());
        guards_of_concat(a, b.drop_last(), excl, w);
    }
}

pub trait SystemData<'a>: Sized {
    spec fn spec_reads() -> Seq<ResourceId>;
    spec fn spec_writes() -> Seq<ResourceId>;
    spec fn held(&self) -> Multiset<Guard>;

    fn fetch(world: &'a World) -> (r: Self)
        ensures r.held() =~= guards_of(Self::spec_reads(), false, world).add(guards_of(Self::spec_writes(), true, world));
    fn reads() -> (r: Vec<ResourceId>) ensures r@ == Self::spec_reads();
    fn writes() -> (r: Vec<ResourceId>) ensures r@ == Self::spec_writes();
}

impl<'a, A, B> SystemData<'a> for (A, B) where A: SystemData<'a>, B: SystemData<'a> {
    open spec fn spec_reads() -> Seq<ResourceId> { A::spec_reads() + B::spec_reads() }
    open spec fn spec_writes() -> Seq<ResourceId> { A::spec_writes() + B::spec_writes() }
    open spec fn held(&self) -> Multiset<Guard> { self.0.held().add(self.1.held()) }

    fn fetch(world: &'a World) -> Self {
        proof {
            guards_of_concat(A::spec_reads(), B::spec_reads(), false, world);
            guards_of_concat(A::spec_writes(), B::spec_writes(), true, world);
        }
        (<A as SystemData<'a>>::fetch(world),
            <B as SystemData<'a>>::fetch(world))
    }
    fn reads() -> Vec<ResourceId> {
        let mut r = Vec::new();
        {
            let mut reads = <A as SystemData>::reads();
            r.append(&mut reads);
        }
        {
            let mut reads = <B as SystemData>::reads();
            r.append(&mut reads);
        }
        r
    }
    fn writes() -> Vec<ResourceId> {
        let mut r = Vec::new();
        {
            let mut writes = <A as SystemData>::writes();
            r.append(&mut writes);
        }
        {
            let mut writes = <B as SystemData>::writes();
            r.append(&mut writes);
        }
        r
    }
}
}
fn main(){}
