use vstd::prelude::*;
verus! {

#[verifier::external_body]
pub struct ResourceId { _p: u8 }

#[verifier::external_body]
pub fn rid_eq(a: &ResourceId, b: &ResourceId) -> (r: bool)
    ensures r == (*a == *b)
{ unimplemented!() }

#[derive(Clone, Copy, PartialEq, Eq, Structural)]
pub struct SystemId(pub usize);

pub struct SystemExec { _p: u8 }

pub const MAX_SYSTEMS_PER_GROUP: usize = 5;

#[derive(Clone, Copy, PartialEq, Eq)]
pub enum Conflict { None, Single(usize), Multiple }

pub open spec fn spec_conflict_add(c: Conflict, g: usize) -> Conflict {
    match c { Conflict::None => Conflict::Single(g), _ => Conflict::Multiple }
}
impl Conflict {
    fn add(conflict: Self, group: usize) -> (r: Self)
        ensures r == spec_conflict_add(conflict, group)
    {
        match conflict {
            Conflict::None => Conflict::Single(group),
            Conflict::Single(_) => Conflict::Multiple,
            Conflict::Multiple => Conflict::Multiple,
        }
    }
}

pub open spec fn inter<T>(a: Seq<T>, b: Seq<T>) -> bool {
    exists|i: int, j: int| 0 <= i < a.len() && 0 <= j < b.len() && a[i] == b[j]
}

#[verifier::external_body]
fn check_intersection_rid(i: &Vec<ResourceId>, j: &Vec<ResourceId>) -> (r: bool)
    ensures r == inter(i@, j@)
{ unimplemented!() }
#[verifier::external_body]
fn check_intersection_rid2(i: &Vec<ResourceId>, j1: &Vec<ResourceId>, j2: &Vec<ResourceId>) -> (r: bool)
    ensures r == inter(i@, j1@ + j2@)
{ unimplemented!() }
#[verifier::external_body]
fn check_intersection_sid(i: &Vec<SystemId>, j: &Vec<SystemId>) -> (r: bool)
    ensures r == inter(i@, j@)
{ unimplemented!() }

type Ids = Vec<Vec<Vec<SystemId>>>;
type Rws = Vec<Vec<Vec<ResourceId>>>;

// does new system (nr, nw) conflict on resources with group g of stage s?
pub open spec fn res_conflict(reads: Seq<ResourceId>, writes: Seq<ResourceId>, nr: Seq<ResourceId>, nw: Seq<ResourceId>) -> bool {
    inter(nw, writes + reads) || inter(nr, writes)
}
pub open spec fn grp_hit(ids: Seq<SystemId>, reads: Seq<ResourceId>, writes: Seq<ResourceId>, nr: Seq<ResourceId>, nw: Seq<ResourceId>, dep: Seq<SystemId>) -> bool {
    res_conflict(reads, writes, nr, nw) || inter(dep, ids)
}
pub open spec fn grp_dep_only(ids: Seq<SystemId>, reads: Seq<ResourceId>, writes: Seq<ResourceId>, nr: Seq<ResourceId>, nw: Seq<ResourceId>, dep: Seq<SystemId>) -> bool {
    !res_conflict(reads, writes, nr, nw) && inter(dep, ids)
}

pub open spec fn shape_ok(ids: &Ids, reads: &Rws, writes: &Rws, stage: int) -> bool {
    0 <= stage < ids.len() && ids.len() == reads.len() && ids.len() == writes.len()
    && ids[stage].len() == reads[stage].len() && ids[stage].len() == writes[stage].len()
}

pub open spec fn hit_at(ids: &Ids, reads: &Rws, writes: &Rws, stage: int, g: int, nr: Seq<ResourceId>, nw: Seq<ResourceId>, dep: Seq<SystemId>) -> bool {
    grp_hit(ids[stage][g]@, reads[stage][g]@, writes[stage][g]@, nr, nw, dep)
}
// fold of Conflict::add over hit groups in [0,n)
pub open spec fn fold_hits(ids: &Ids, reads: &Rws, writes: &Rws, stage: int, nr: Seq<ResourceId>, nw: Seq<ResourceId>, dep: Seq<SystemId>, n: int) -> Conflict
    decreases n
{
    if n <= 0 { Conflict::None } else {
        let prev = fold_hits(ids, reads, writes, stage, nr, nw, dep, n - 1);
        if hit_at(ids, reads, writes, stage, n - 1, nr, nw, dep) { spec_conflict_add(prev, (n - 1) as usize) } else { prev }
    }
}

pub proof fn lemma_fold_hits(ids: &Ids, reads: &Rws, writes: &Rws, stage: int, nr: Seq<ResourceId>, nw: Seq<ResourceId>, dep: Seq<SystemId>, n: int)
    requires 0 <= n <= usize::MAX
    ensures
        match fold_hits(ids, reads, writes, stage, nr, nw, dep, n) {
            Conflict::None => forall|g: int| 0 <= g < n ==> !#[trigger] hit_at(ids, reads, writes, stage, g, nr, nw, dep),
            Conflict::Single(h) => 0 <= h < n && hit_at(ids, reads, writes, stage, h as int, nr, nw, dep)
                && forall|g: int| 0 <= g < n && g != h ==> !#[trigger] hit_at(ids, reads, writes, stage, g, nr, nw, dep),
            Conflict::Multiple => true,
        }
    decreases n
{
    if n > 0 { lemma_fold_hits(ids, reads, writes, stage, nr, nw, dep, n - 1); }
}

pub open spec fn any_dep_only(ids: &Ids, reads: &Rws, writes: &Rws, stage: int, nr: Seq<ResourceId>, nw: Seq<ResourceId>, dep: Seq<SystemId>, n: int) -> bool
    decreases n
{
    n > 0 && (any_dep_only(ids, reads, writes, stage, nr, nw, dep, n - 1) || dep_only_at(ids, reads, writes, stage, n - 1, nr, nw, dep))
}
pub open spec fn dep_only_at(ids: &Ids, reads: &Rws, writes: &Rws, stage: int, g: int, nr: Seq<ResourceId>, nw: Seq<ResourceId>, dep: Seq<SystemId>) -> bool {
    grp_dep_only(ids[stage][g]@, reads[stage][g]@, writes[stage][g]@, nr, nw, dep)
}
pub proof fn lemma_dep_only(ids: &Ids, reads: &Rws, writes: &Rws, stage: int, nr: Seq<ResourceId>, nw: Seq<ResourceId>, dep: Seq<SystemId>, n: int)
    ensures
        any_dep_only(ids, reads, writes, stage, nr, nw, dep, n) ==> exists|g: int| 0 <= g < n && #[trigger] hit_at(ids, reads, writes, stage, g, nr, nw, dep) && inter(dep, ids[stage][g]@),
    decreases n
{
    if n > 0 {
        lemma_dep_only(ids, reads, writes, stage, nr, nw, dep, n - 1);
        if dep_only_at(ids, reads, writes, stage, n - 1, nr, nw, dep) {
            assert(hit_at(ids, reads, writes, stage, n - 1, nr, nw, dep) && inter(dep, ids[stage][n - 1]@));
        }
    }
}
pub open spec fn spec_find_conflict(ids: &Ids, reads: &Rws, writes: &Rws, stage: int, nr: Seq<ResourceId>, nw: Seq<ResourceId>, dep: Seq<SystemId>) -> Conflict {
    let n = ids[stage].len() as int;
    let dc = any_dep_only(ids, reads, writes, stage, nr, nw, dep, n);
    if (dc && dep.len() > 1) || (!dc && dep.len() != 0) { Conflict::Multiple } else { fold_hits(ids, reads, writes, stage, nr, nw, dep, n) }
}


pub proof fn lemma_derived(ids: &Ids, reads: &Rws, writes: &Rws, stage: int, nr: Seq<ResourceId>, nw: Seq<ResourceId>, dep: Seq<SystemId>)
    requires ids[stage].len() <= usize::MAX
    ensures
        match spec_find_conflict(ids, reads, writes, stage, nr, nw, dep) {
            Conflict::None => dep.len() == 0
                && forall|g: int| 0 <= g < ids[stage].len() ==> !res_conflict(#[trigger] reads[stage][g]@, writes[stage][g]@, nr, nw),
            Conflict::Single(h) => h < ids[stage].len()
                && (forall|g: int| 0 <= g < ids[stage].len() && g != h ==> !res_conflict(#[trigger] reads[stage][g]@, writes[stage][g]@, nr, nw))
                && (forall|i: int| 0 <= i < dep.len() ==> ids[stage][h as int]@.contains(#[trigger] dep[i])),
            Conflict::Multiple => true,
        }
{
    let n = ids[stage].len() as int;
    lemma_fold_hits(ids, reads, writes, stage, nr, nw, dep, n);
    lemma_dep_only(ids, reads, writes, stage, nr, nw, dep, n);
    match spec_find_conflict(ids, reads, writes, stage, nr, nw, dep) {
        Conflict::None => {
            assert forall|g: int| 0 <= g < n implies !res_conflict(#[trigger] reads[stage][g]@, writes[stage][g]@, nr, nw) by {
                assert(!hit_at(ids, reads, writes, stage, g, nr, nw, dep));
            }
        }
        Conflict::Single(h) => {
            assert forall|g: int| 0 <= g < n && g != h implies !res_conflict(#[trigger] reads[stage][g]@, writes[stage][g]@, nr, nw) by {
                assert(!hit_at(ids, reads, writes, stage, g, nr, nw, dep));
            }
            if dep.len() != 0 {
                let g = choose|g: int| 0 <= g < n && #[trigger] hit_at(ids, reads, writes, stage, g, nr, nw, dep) && inter(dep, ids[stage][g]@);
                assert(g == h);
                let (a, b) = choose|a: int, b: int| 0 <= a < dep.len() && 0 <= b < ids[stage][g]@.len() && dep[a] == ids[stage][g]@[b];
                assert forall|i: int| 0 <= i < dep.len() implies ids[stage][h as int]@.contains(#[trigger] dep[i]) by {
                    assert(i == 0 && a == 0);
                    assert(ids[stage][h as int]@[b] == dep[i]);
                }
            }
        }
        Conflict::Multiple => {}
    }
}

fn find_conflict(ids: &Ids, reads: &Rws, writes: &Rws, stage: usize, new_reads: &Vec<ResourceId>, new_writes: &Vec<ResourceId>, new_dep: &Vec<SystemId>) -> (r: Conflict)
    requires shape_ok(ids, reads, writes, stage as int)
    ensures r == spec_find_conflict(ids, reads, writes, stage as int, new_reads@, new_writes@, new_dep@),
        match r {
            Conflict::None => new_dep.len() == 0
                && forall|g: int| 0 <= g < ids[stage as int].len() ==> !res_conflict(#[trigger] reads[stage as int][g]@, writes[stage as int][g]@, new_reads@, new_writes@),
            Conflict::Single(h) => h < ids[stage as int].len()
                && (forall|g: int| 0 <= g < ids[stage as int].len() && g != h ==> !res_conflict(#[trigger] reads[stage as int][g]@, writes[stage as int][g]@, new_reads@, new_writes@))
                && (forall|i: int| 0 <= i < new_dep.len() ==> ids[stage as int][h as int]@.contains(#[trigger] new_dep[i])),
            Conflict::Multiple => true,
        }
{
    proof { lemma_fold_hits(ids, reads, writes, stage as int, new_reads@, new_writes@, new_dep@, ids[stage as int].len() as int);
            lemma_dep_only(ids, reads, writes, stage as int, new_reads@, new_writes@, new_dep@, ids[stage as int].len() as int);
            lemma_derived(ids, reads, writes, stage as int, new_reads@, new_writes@, new_dep@); }
    let num_groups = ids[stage].len();
    let mut dep_conflict = false;

    // lowered: (0..num_groups).filter(|&group| BODY).fold(Conflict::None, Conflict::add)
    let mut acc = Conflict::None;
    let mut group = 0;
    while group < num_groups
        invariant
            0 <= group <= num_groups, num_groups == ids[stage as int].len(),
            shape_ok(ids, reads, writes, stage as int),
            acc == fold_hits(ids, reads, writes, stage as int, new_reads@, new_writes@, new_dep@, group as int),
            dep_conflict == any_dep_only(ids, reads, writes, stage as int, new_reads@, new_writes@, new_dep@, group as int),
        decreases num_groups - group
    {
        let keep = {
            let inters = check_intersection_rid2(new_writes, &writes[stage][group], &reads[stage][group])
                || check_intersection_rid(new_reads, &writes[stage][group]);
            if inters {
                true
            } else if check_intersection_sid(new_dep, &ids[stage][group]) {
                dep_conflict = true;
                true
            } else {
                false
            }
        };
        if keep { acc = Conflict::add(acc, group); }
        group += 1;
    }
    let conflict = acc;

    if (dep_conflict && new_dep.len() > 1) || (!dep_conflict && !(new_dep.len() == 0)) {
        Conflict::Multiple
    } else {
        conflict
    }
}


pub struct Stage { pub groups: Vec<Vec<SystemExec>> }

pub struct StagesBuilder {
    pub barrier: usize,
    pub ids: Ids,
    pub reads: Rws,
    pub running_time: Vec<Vec<u8>>,
    pub stages: Vec<Stage>,
    pub writes: Rws,
}

pub enum InsertionTarget { Stage(usize), Group(usize, usize), NewStage }

impl StagesBuilder {
    pub open spec fn nstages(&self) -> int { self.stages.len() as int }
    pub open spec fn ngroups(&self, s: int) -> int { self.ids[s].len() as int }

    pub open spec fn lockstep(&self) -> bool {
        &&& self.ids.len() == self.stages.len()
        &&& self.reads.len() == self.stages.len()
        &&& self.writes.len() == self.stages.len()
        &&& self.running_time.len() == self.stages.len()
        &&& self.barrier <= self.stages.len()
        &&& forall|s: int| 0 <= s < self.nstages() ==> {
            &&& #[trigger] self.ids[s].len() == self.stages[s].groups.len()
            &&& self.reads[s].len() == self.ids[s].len()
            &&& self.writes[s].len() == self.ids[s].len()
            &&& self.running_time[s].len() == self.ids[s].len()
            &&& self.ids[s].len() >= 1
        }
        &&& forall|s: int, g: int| #![trigger self.ids[s][g]] #![trigger self.running_time[s][g]] #![trigger self.stages[s].groups[g]] 0 <= s < self.nstages() && 0 <= g < self.ngroups(s) ==> {
            &&& self.ids[s][g].len() == self.stages[s].groups[g].len()
            &&& 1 <= self.ids[s][g].len() <= MAX_SYSTEMS_PER_GROUP - 1
            &&& self.running_time[s][g] as int <= 5 * self.ids[s][g].len()
        }
    }

    // C01 (static part): groups of one stage are pairwise access-compatible
    pub open spec fn isolated(&self) -> bool {
        forall|s: int, g: int, h: int| 0 <= s < self.nstages() && 0 <= g < self.ngroups(s) && 0 <= h < self.ngroups(s) && g != h ==>
            !inter(#[trigger] self.writes[s][g]@, self.writes[s][h]@ + #[trigger] self.reads[s][h]@)
    }

    pub open spec fn wf(&self) -> bool { self.lockstep() && self.isolated() }

    fn improves_balance(&self, stage: usize, group: usize, new_time: u8) -> (r: bool)
        requires self.lockstep(), stage < self.nstages(), group < self.ngroups(stage as int), 1 <= new_time <= 5,
            self.ids[stage as int][group as int].len() < MAX_SYSTEMS_PER_GROUP - 1,
    {
        // lowered: *self.running_time[stage].iter().max().unwrap()
        let mut m: u8 = self.running_time[stage][0];
        let mut k = 1;
        while k < self.running_time[stage].len()
            invariant 1 <= k <= self.running_time[stage as int].len(), self.lockstep(), stage < self.nstages(),
                m <= 20,
            decreases self.running_time[stage as int].len() - k
        {
            if self.running_time[stage][k] > m { m = self.running_time[stage][k]; }
            k += 1;
        }
        let max = m as i8;
        let old_time = self.running_time[stage][group];
        let new_time = (old_time + new_time) as i8;
        let a = max - new_time;
        let b = max - old_time as i8;
        let aa = if a < 0 { -a } else { a };
        let bb = if b < 0 { -b } else { b };
        aa < bb
    }

    pub open spec fn stage_ids(&self, s: int) -> Seq<SystemId> { self.ids[s]@.map_values(|g: Vec<SystemId>| g@).flatten() }

    // id d is located in some stage in [lo, hi)
    pub open spec fn located_in(&self, d: SystemId, lo: int, hi: int) -> bool {
        exists|t: int, g: int, p: int| lo <= t < hi && 0 <= t < self.nstages() && 0 <= g < self.ngroups(t) && 0 <= p < self.ids[t][g].len() && #[trigger] self.ids[t][g][p] == d
    }

    /// Removes the ids of a given stage from the passed dependency list.
    fn remove_ids(&self, stage: usize, new_dep: &mut Vec<SystemId>)
        requires self.lockstep(), stage < self.nstages()
        ensures
            // every survivor was there before
            forall|i: int| 0 <= i < final(new_dep).len() ==> old(new_dep)@.contains(#[trigger] final(new_dep)[i]),
            // every element that disappeared sits in `stage`
            forall|i: int| 0 <= i < old(new_dep).len() ==> final(new_dep)@.contains(#[trigger] old(new_dep)[i]) || self.located_in(old(new_dep)[i], stage as int, stage + 1),
            final(new_dep).len() <= old(new_dep).len(),
    {
        if !(new_dep.len() == 0) {
            // lowered: for id in self.ids[stage].iter().flatten()
            let mut g = 0;
            while g < self.ids[stage].len()
                invariant 0 <= g <= self.ids[stage as int].len(), self.lockstep(), stage < self.nstages(),
                    forall|i: int| 0 <= i < new_dep.len() ==> old(new_dep)@.contains(#[trigger] new_dep[i]),
                    forall|i: int| 0 <= i < old(new_dep).len() ==> new_dep@.contains(#[trigger] old(new_dep)[i]) || self.located_in(old(new_dep)[i], stage as int, stage + 1),
                    new_dep.len() <= old(new_dep).len(),
                decreases self.ids[stage as int].len() - g
            {
                let mut p = 0;
                while p < self.ids[stage][g].len()
                    invariant 0 <= p <= self.ids[stage as int][g as int].len(), 0 <= g < self.ids[stage as int].len(), self.lockstep(), stage < self.nstages(),
                        forall|i: int| 0 <= i < new_dep.len() ==> old(new_dep)@.contains(#[trigger] new_dep[i]),
                        forall|i: int| 0 <= i < old(new_dep).len() ==> new_dep@.contains(#[trigger] old(new_dep)[i]) || self.located_in(old(new_dep)[i], stage as int, stage + 1),
                        new_dep.len() <= old(new_dep).len(),
                    decreases self.ids[stage as int][g as int].len() - p
                {
                    let id = &self.ids[stage][g][p];
                    // lowered: new_dep.iter().position(|x| *x == *id)
                    let mut index: Option<usize> = None;
                    let mut k = 0;
                    while k < new_dep.len()
                        invariant_except_break index is None,
                        invariant 0 <= k <= new_dep.len(),
                        ensures index is Some ==> ((index->0) < new_dep.len() && new_dep[(index->0) as int] == *id),
                        decreases new_dep.len() - k
                    {
                        if new_dep[k] == *id { index = Some(k); break; }
                        k += 1;
                    }
                    if let Some(index) = index {
                        assert(new_dep[index as int] == *id);
                        let ghost before = new_dep@;
                        new_dep.remove(index);
                        proof {
                            assert(self.ids[stage as int][g as int][p as int] == *id);
                            assert(self.located_in(*id, stage as int, stage + 1));
                            assert forall|i: int| 0 <= i < old(new_dep).len() implies new_dep@.contains(#[trigger] old(new_dep)[i]) || self.located_in(old(new_dep)[i], stage as int, stage + 1) by {
                                let x = old(new_dep)[i];
                                if before.contains(x) {
                                    let j = choose|j: int| 0 <= j < before.len() && before[j] == x;
                                    if j < index { assert(new_dep@[j] == x); } else if j > index { assert(new_dep@[j-1] == x); } else { }
                                }
                            }
                            assert forall|i: int| 0 <= i < new_dep.len() implies old(new_dep)@.contains(#[trigger] new_dep[i]) by {
                                if i < index { assert(new_dep[i] == before[i]); } else { assert(new_dep[i] == before[i+1]); }
                            }
                        }
                    }
                    p += 1;
                }
                g += 1;
            }
        }
    }


    pub open spec fn accept(&self, stage: int, c: Conflict, nt: u8) -> bool {
        match c {
            Conflict::None => true,
            Conflict::Single(g) => self.ids[stage][g as int].len() < MAX_SYSTEMS_PER_GROUP - 1 && self.spec_improves(stage, g as int, nt),
            Conflict::Multiple => false,
        }
    }
    pub uninterp spec fn spec_improves(&self, stage: int, g: int, nt: u8) -> bool;

    #[verifier::external_body]
    fn improves_balance2(&self, stage: usize, group: usize, new_time: u8) -> (r: bool)
        requires self.lockstep(), stage < self.nstages(), group < self.ngroups(stage as int), 1 <= new_time <= 5,
            self.ids[stage as int][group as int].len() < MAX_SYSTEMS_PER_GROUP - 1,
        ensures r == self.spec_improves(stage as int, group as int, new_time)
    { unimplemented!() }

    pub open spec fn target_ok(&self, r: InsertionTarget, nr: Seq<ResourceId>, nw: Seq<ResourceId>, dep0: Seq<SystemId>) -> bool {
        match r {
            InsertionTarget::Stage(s) => self.barrier <= s < self.nstages()
                && (forall|g: int| 0 <= g < self.ngroups(s as int) ==> !res_conflict(#[trigger] self.reads[s as int][g]@, self.writes[s as int][g]@, nr, nw))
                && (forall|i: int| 0 <= i < dep0.len() ==> self.located_in(#[trigger] dep0[i], self.barrier as int, s as int)),
            InsertionTarget::Group(s, g) => self.barrier <= s < self.nstages() && g < self.ngroups(s as int)
                && self.ids[s as int][g as int].len() < MAX_SYSTEMS_PER_GROUP - 1
                && (forall|h: int| 0 <= h < self.ngroups(s as int) && h != g ==> !res_conflict(#[trigger] self.reads[s as int][h]@, self.writes[s as int][h]@, nr, nw))
                && (forall|i: int| 0 <= i < dep0.len() ==> self.located_in(#[trigger] dep0[i], self.barrier as int, s as int) || self.ids[s as int][g as int]@.contains(dep0[i])),
            InsertionTarget::NewStage => true,
        }
    }
    pub open spec fn found_ok(&self, found: Option<(usize, Conflict)>, nr: Seq<ResourceId>, nw: Seq<ResourceId>, dep0: Seq<SystemId>) -> bool {
        match found {
            Some((s, Conflict::None)) => self.target_ok(InsertionTarget::Stage(s), nr, nw, dep0),
            Some((s, Conflict::Single(g))) => self.target_ok(InsertionTarget::Group(s, g), nr, nw, dep0),
            Some((s, Conflict::Multiple)) => false,
            None => true,
        }
    }

    fn insertion_target(&self, new_reads: &Vec<ResourceId>, new_writes: &Vec<ResourceId>, new_dep: &mut Vec<SystemId>, new_time: u8) -> (r: InsertionTarget)
        requires self.lockstep(), 1 <= new_time <= 5,
        ensures self.target_ok(r, new_reads@, new_writes@, old(new_dep)@),
    {
        let mut found: Option<(usize, Conflict)> = None;
        let mut stage = self.barrier;
        let end = self.stages.len();
        while stage < end
            invariant_except_break found is None,
                forall|i: int| 0 <= i < old(new_dep).len() ==> new_dep@.contains(#[trigger] old(new_dep)[i]) || self.located_in(old(new_dep)[i], self.barrier as int, stage as int),
            invariant self.barrier <= stage <= end, end == self.nstages(), self.lockstep(), 1 <= new_time <= 5,
            ensures self.found_ok(found, new_reads@, new_writes@, old(new_dep)@),
            decreases end - stage
        {
            let item = {
                let conflict = find_conflict(&self.ids, &self.reads, &self.writes, stage, new_reads, new_writes, new_dep);
                self.remove_ids(stage, new_dep);
                (stage, conflict)
            };
            let pred = match item.1 {
                Conflict::None => true,
                Conflict::Single(group) => {
                    self.stages[stage].groups[group].len() < MAX_SYSTEMS_PER_GROUP - 1
                        && self.improves_balance2(stage, group, new_time)
                }
                Conflict::Multiple => false,
            };
            if pred { found = Some(item); break; }
            stage += 1;
        }
        match found {
            Some((stage, conflict)) => match conflict {
                Conflict::None => InsertionTarget::Stage(stage),
                Conflict::Single(group) => InsertionTarget::Group(stage, group),
                Conflict::Multiple => InsertionTarget::NewStage,
            },
            None => InsertionTarget::NewStage,
        }
    }
}

}
fn main(){}
