use vstd::prelude::*;
verus! {
pub struct Sys { pub runs: Ghost<nat>, pub p: u8 }
impl Sys {
    #[verifier::external_body]
    fn run_now(&mut self) ensures final(self).runs@ == old(self).runs@ + 1 { }
}
fn t(groups: &mut Vec<Vec<Sys>>) {
    let f = |group: &mut Vec<Sys>| { let mut i = 0; while i < group.len() decreases group.len() - i { group[i].run_now(); i += 1; } };
}
}
fn main(){}
