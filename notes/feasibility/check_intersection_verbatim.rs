use vstd::prelude::*;
verus! {
pub fn check_intersection<'i, 'j, T, I, J>(mut i: I, j: J) -> bool
where
    I: Iterator<Item = &'i T>,
    J: Iterator<Item = &'j T> + Clone,
    T: PartialEq + 'i + 'j,
{
    i.any(|elem_i| j.clone().any(|elem_j| *elem_j == *elem_i))
}
}
fn main(){}
