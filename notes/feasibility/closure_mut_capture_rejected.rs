use vstd::prelude::*;
verus! {
fn t(a: usize, b: usize) -> (r: usize)
{
    let mut flag = false;
    let mut f = |g: usize| -> bool { flag = true; g > 1 };
    let x = f(a);
    if flag { 1 } else { 0 }
}
}
fn main(){}
