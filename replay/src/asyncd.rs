//! C15: call sequences on a real `AsyncDispatcher` with systems that stay inside `run` until a gate opens.

use std::{
    panic::{catch_unwind, AssertUnwindSafe},
    sync::atomic::Ordering,
    time::{Duration, Instant},
};

use shred::World;

use crate::{
    model::*,
    real::{apply, pool, Builder, Ctx, EvK, Kind},
};

#[derive(Clone, Copy, Debug, PartialEq)]
pub enum AOp {
    Dispatch,
    Running,
    Wait,
    WaitNoTl,
    WorldRef,
    WorldMut,
    OpenGate,
    /// the first thread-local system panics inside its next run; the wait() that runs it is caught and the dispatcher used on
    ArmPanic,
    /// setup() of the async dispatcher (waits for completion like world_mut(), runs no system)
    Setup,
}

#[derive(Clone, Debug, PartialEq)]
pub struct ACase {
    pub plan: Case,
    pub ops: Vec<AOp>,
}

impl ACase {
    pub fn to_text(&self) -> String {
        let mut s = self.plan.to_text();
        for o in &self.ops {
            s += &format!("a {:?}\n", o);
        }
        s
    }
    pub fn from_text(text: &str) -> Result<ACase, String> {
        let plan_text: String = text.lines().filter(|l| !l.trim_start().starts_with("a ")).map(|l| format!("{}\n", l)).collect();
        let plan = Case::from_text(&plan_text)?;
        let mut ops = vec![];
        for l in text.lines().map(|l| l.trim()).filter(|l| l.starts_with("a ")) {
            ops.push(match &l[2..] {
                "Dispatch" => AOp::Dispatch,
                "Running" => AOp::Running,
                "Wait" => AOp::Wait,
                "WaitNoTl" => AOp::WaitNoTl,
                "WorldRef" => AOp::WorldRef,
                "WorldMut" => AOp::WorldMut,
                "OpenGate" => AOp::OpenGate,
                "ArmPanic" => AOp::ArmPanic,
                "Setup" => AOp::Setup,
                o => return Err(format!("unknown async op {}", o)),
            });
        }
        Ok(ACase { plan, ops })
    }
}

pub fn generate(rng: &mut Rng) -> ACase {
    let mut sh = Shape::base();
    sh.max_ops = 5;
    sh.p_batch = 0;
    sh.p_tl = 25;
    sh.p_barrier = 10;
    let plan = generate_case(rng, sh);
    let n = 2 + rng.below(6);
    let mut ops = vec![];
    for _ in 0..n {
        ops.push(match rng.below(12) {
            11 => AOp::Setup,
            10 => AOp::ArmPanic,
            0 | 1 | 2 => AOp::Dispatch,
            3 | 4 => AOp::Running,
            5 => AOp::Wait,
            6 => AOp::WaitNoTl,
            7 => AOp::WorldRef,
            8 => AOp::WorldMut,
            _ => AOp::OpenGate,
        });
    }
    ops.push(AOp::Wait);
    ACase { plan, ops }
}

fn generate_case(rng: &mut Rng, sh: Shape) -> Case {
    loop {
        let c = crate::model::generate(rng, sh);
        if well_formed(&c) {
            return c;
        }
    }
}

pub fn run(case: &ACase) -> Option<String> {
    run_mode(case, false)
}

/// counts_only: only how often each system ran is judged (C04), not when
pub fn run_mode(case: &ACase, counts_only: bool) -> Option<String> {
    // every call of a sequence over a well-formed plan returns: the harness systems never panic themselves and borrow nothing
    match catch_unwind(AssertUnwindSafe(|| run_inner(case, counts_only))) {
        // the one report that rests on a duration is only made when a second, fresh run of the same sequence shows it again
        // (a poll that was merely descheduled for that long does not repeat; a poll that blocks does)
        Ok(Some(w)) if w.contains("instead of reporting true") => match catch_unwind(AssertUnwindSafe(|| run_inner(case, counts_only))) {
            Ok(Some(w2)) if w2.contains("instead of reporting true") => Some(w2),
            Ok(Some(other)) => Some(other),
            _ => None,
        },
        Ok(r) => r,
        Err(p) => {
            let m = crate::real::panic_msg(p);
            if m.contains("armed panic of harness system") {
                // the armed system is a thread-local one; only wait() runs those, and the harness catches that wait()
                Some(format!("async dispatcher: a thread-local system was run by a call other than wait() (it was armed to panic inside its next run, and the panic came out of that call): {}", m))
            } else {
                Some(format!("async dispatcher: a call of the sequence panicked instead of returning: {}", m))
            }
        }
    }
}

fn run_inner(case: &ACase, counts_only: bool) -> Option<String> {
    let ctx = Ctx::new();
    let mut b = Builder::new();
    b.add_pool(pool());
    let mut uid = 0;
    for op in &case.plan.ops {
        if catch_unwind(AssertUnwindSafe(|| apply(&mut b, op, &mut uid, &ctx))).is_err() {
            return None;
        }
    }
    let infos = crate::real::infos(&case.plan);
    let staged: Vec<usize> = infos.iter().filter(|i| i.parent.is_none() && i.kind == Kind::Sys).map(|i| i.uid).collect();
    let tls: Vec<usize> = infos.iter().filter(|i| i.parent.is_none() && i.kind == Kind::Tl).map(|i| i.uid).collect();
    let mut d = b.build_async(World::empty());
    d.setup();
    ctx.take();
    let me = std::thread::current().id();
    // a third of the sequences that poll running() hold the systems much longer: there a poll that only answers once the systems
    // have finished (instead of answering true at once) is told from a poll that happened to come late
    let long_gate = case.ops.contains(&AOp::Running) && case.to_text().len() % 4 == 0;
    ctx.gate_ms.store(if long_gate { 250 } else { 40 }, Ordering::SeqCst);
    let mut dispatched = 0usize; // dispatch() calls so far
    let mut tl_runs = 0usize; // wait() calls so far
    let mut tl_exp: std::collections::HashMap<usize, usize> = tls.iter().map(|u| (*u, 0usize)).collect(); // expected runs per thread-local system
    let mut all: Vec<crate::real::Ev> = vec![];
    let count = |evs: &[crate::real::Ev], k: EvK, uids: &[usize]| evs.iter().filter(|e| e.k == k && uids.contains(&e.uid)).count();
    for (i, op) in case.ops.iter().enumerate() {
        let what = format!("call {} ({:?})", i, op);
        match op {
            AOp::OpenGate => ctx.gate_open.store(true, Ordering::SeqCst),
            AOp::ArmPanic => {
                if let Some(u) = tls.first() {
                    ctx.panic_uid.store(*u, Ordering::SeqCst);
                }
            }
            AOp::Dispatch => {
                ctx.gate_open.store(false, Ordering::SeqCst);
                d.dispatch();
                dispatched += 1;
                all.extend(ctx.take());
                // a second dispatch does not start before the previous one is complete
                let enters = count(&all, EvK::Enter, &staged);
                let exits = count(&all, EvK::Exit, &staged);
                if enters > staged.len() * dispatched || exits + staged.len() < enters.min(staged.len() * dispatched) && false {
                    return Some(format!("{}: more system starts ({}) than {} dispatches of {} systems allow", what, enters, dispatched, staged.len()));
                }
                if counts_only {
                    continue;
                }
                if exits < staged.len() * (dispatched - 1) {
                    return Some(format!("{}: returned while systems of the previous dispatch were still unfinished ({} of {} finished)", what, exits, staged.len() * (dispatched - 1)));
                }
                if count(&all, EvK::Enter, &tls) != tl_exp.values().sum::<usize>() {
                    return Some(format!("{}: a thread-local system ran inside dispatch (thread-local systems run only inside wait)", what));
                }
            }
            AOp::Running => {
                // wait until some system of the pending dispatch is inside run (or everything finished), then ask
                let t0 = Instant::now();
                while t0.elapsed() < Duration::from_millis(20) {
                    let snap = ctx.log.lock().unwrap().clone();
                    let mut cur = all.clone();
                    cur.extend(snap);
                    if count(&cur, EvK::Enter, &staged) > count(&cur, EvK::Exit, &staged) {
                        break;
                    }
                    std::thread::yield_now();
                }
                let inside_before = {
                    let snap = ctx.log.lock().unwrap().clone();
                    let mut cur = all.clone();
                    cur.extend(snap);
                    count(&cur, EvK::Enter, &staged) > count(&cur, EvK::Exit, &staged) && !ctx.gate_open.load(Ordering::SeqCst)
                };
                let t_poll = Instant::now();
                let r = d.running();
                let poll_ms = t_poll.elapsed().as_millis();
                all.extend(ctx.take());
                if counts_only {
                    continue;
                }
                let done = count(&all, EvK::Exit, &staged) == staged.len() * dispatched;
                if long_gate && inside_before && !r && poll_ms >= 120 {
                    return Some(format!("{}: running() was asked while a system was inside run (held there for 250 ms); it answered false, {} ms later, once the systems had finished, instead of reporting true", what, poll_ms));
                }
                if inside_before && !r && !done {
                    return Some(format!("{}: running() reported false while a system was inside run", what));
                }
                if !r && !done {
                    return Some(format!("{}: running() reported false although only {} of {} system runs had finished", what, count(&all, EvK::Exit, &staged), staged.len() * dispatched));
                }
            }
            AOp::Wait | AOp::WaitNoTl | AOp::WorldRef | AOp::WorldMut | AOp::Setup => {
                match op {
                    AOp::Wait => {
                        let armed = ctx.panic_uid.load(Ordering::SeqCst);
                        let r = catch_unwind(AssertUnwindSafe(|| d.wait()));
                        tl_runs += 1;
                        match r {
                            Ok(()) => {
                                ctx.panic_uid.store(crate::real::NONE, Ordering::SeqCst);
                                tls.iter().for_each(|u| *tl_exp.get_mut(u).unwrap() += 1);
                            }
                            Err(p) => {
                                if armed == crate::real::NONE || ctx.panic_uid.load(Ordering::SeqCst) != crate::real::NONE {
                                    std::panic::resume_unwind(p);
                                }
                                // the armed system panicked inside this wait (caught by the caller, who keeps using the dispatcher):
                                // the thread-local systems in front of it and it itself were started
                                for u in &tls {
                                    *tl_exp.get_mut(u).unwrap() += 1;
                                    if *u == armed {
                                        break;
                                    }
                                }
                            }
                        }
                    }
                    AOp::WaitNoTl => d.wait_without_tl(),
                    AOp::WorldRef => {
                        let _ = d.world();
                    }
                    AOp::Setup => d.setup(),
                    _ => {
                        let _ = d.world_mut();
                    }
                }
                all.extend(ctx.take());
                if counts_only {
                    continue;
                }
                let (enters, exits) = (count(&all, EvK::Enter, &staged), count(&all, EvK::Exit, &staged));
                if exits != staged.len() * dispatched || enters != exits {
                    return Some(format!("{}: returned although only {} of the {} system runs of the earlier dispatches had finished ({} started)", what, exits, staged.len() * dispatched, enters));
                }
                if d.running() {
                    return Some(format!("{}: running() is true right after it returned", what));
                }
                let tl_enters = count(&all, EvK::Enter, &tls);
                if tl_enters != tl_exp.values().sum::<usize>() {
                    return Some(format!("{}: thread-local systems have run {} times in total, {} wait() calls of {} thread-local systems were made ({} runs expected)", what, tl_enters, tl_runs, tls.len(), tl_exp.values().sum::<usize>()));
                }
                if let Some(e) = all.iter().find(|e| tls.contains(&e.uid) && e.k == EvK::Enter && e.thread != me) {
                    return Some(format!("{}: thread-local system #{} ran on {:?}, not on the calling thread", what, e.uid, e.thread));
                }
            }
        }
    }
    // every dispatch ran every ordinary system exactly once, and dispatch k finished before dispatch k+1 started
    for &u in &staged {
        let n = all.iter().filter(|e| e.uid == u && e.k == EvK::Enter).count();
        if n != dispatched {
            return Some(format!("async dispatcher: system #{} ran {} times over {} dispatches", u, n, dispatched));
        }
    }
    for &u in &tls {
        let n = all.iter().filter(|e| e.uid == u && e.k == EvK::Enter).count();
        if n != tl_exp[&u] {
            return Some(format!("async dispatcher: thread-local system #{} ran {} times over {} wait() calls, {} expected{}", u, n, tl_runs, tl_exp[&u],
                if case.ops.contains(&AOp::ArmPanic) { " (one wait() was left by a panic of a thread-local system, caught by the caller)" } else { "" }));
        }
    }
    if counts_only {
        return None;
    }
    let mut finished = 0usize;
    let mut started = 0usize;
    for e in &all {
        if !staged.contains(&e.uid) {
            continue;
        }
        match e.k {
            EvK::Enter => {
                if staged.len() > 0 && started / staged.len() > finished / staged.len() && started % staged.len() == 0 {
                    return Some(format!("a system of dispatch {} started before dispatch {} was complete", started / staged.len(), started / staged.len() - 1));
                }
                started += 1;
            }
            EvK::Exit => finished += 1,
            _ => {}
        }
    }
    None
}

/// C13 for the async dispatcher: `setup` reaches every ordinary and every thread-local system exactly once per call
pub fn setup_run(plan: &Case, in_flight: bool) -> Option<String> {
    let ctx = Ctx::new();
    let mut b = Builder::new();
    b.add_pool(pool());
    let mut uid = 0;
    for op in &plan.ops {
        if catch_unwind(AssertUnwindSafe(|| apply(&mut b, op, &mut uid, &ctx))).is_err() {
            return None;
        }
    }
    let infos = crate::real::infos(plan);
    let mut d = b.build_async(World::empty());
    for call in ["first", "second"] {
        ctx.take();
        d.setup();
        let evs = ctx.take();
        for i in &infos {
            if i.kind == Kind::Sys || i.kind == Kind::Tl {
                let n = evs.iter().filter(|e| e.uid == i.uid && e.k == EvK::Setup).count();
                if n != 1 {
                    return Some(format!(
                        "the {} call of AsyncDispatcher::setup called the setup of {} #{} {} times, expected exactly once",
                        call,
                        if i.kind == Kind::Tl { "thread-local system" } else { "system" },
                        i.uid,
                        n
                    ));
                }
            }
        }
    }
    if !in_flight {
        return None;
    }
    // setup called while a dispatch is still in flight: it must wait for the state and still reach every system
    ctx.gate_open.store(false, Ordering::SeqCst);
    ctx.gate_ms.store(30, Ordering::SeqCst);
    d.dispatch();
    ctx.take();
    d.setup();
    let evs = ctx.take();
    ctx.gate_ms.store(0, Ordering::SeqCst);
    d.wait();
    for i in &infos {
        if i.kind == Kind::Sys || i.kind == Kind::Tl {
            let n = evs.iter().filter(|e| e.uid == i.uid && e.k == EvK::Setup).count();
            if n != 1 {
                return Some(format!("AsyncDispatcher::setup called right after dispatch (systems still running) called the setup of #{} {} times, expected exactly once", i.uid, n));
            }
        }
    }
    None
}
