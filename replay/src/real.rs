//! Drives the REAL crate: turns a `Case` into calls of the public builder API with self-identifying systems,
//! and recovers the executed layout from the shape probe plus one identification run.

use std::{
    collections::{BTreeSet, HashMap},
    panic::{catch_unwind, AssertUnwindSafe},
    sync::{
        atomic::{AtomicBool, AtomicUsize, Ordering},
        Arc, Mutex, OnceLock,
    },
    thread::ThreadId,
    time::{Duration, Instant},
};

use shred::{
    Accessor, AccessorCow, BatchController, Dispatcher, DispatcherBuilder, DynamicSystemData, MultiDispatchController,
    MultiDispatcher, Read, ResourceId, RunNow, RunningTime, System, World, Write,
};

use crate::model::*;

#[derive(Default, Debug, PartialEq)]
pub struct R0(pub u64);
#[derive(Default, Debug, PartialEq)]
pub struct R1(pub u64);
#[derive(Default, Debug, PartialEq)]
pub struct R2(pub u64);
#[derive(Default, Debug, PartialEq)]
pub struct R3(pub u64);

pub fn rid(r: Res) -> ResourceId {
    match r.0 % 4 {
        0 => ResourceId::new_with_dynamic_id::<R0>(r.1),
        1 => ResourceId::new_with_dynamic_id::<R1>(r.1),
        2 => ResourceId::new_with_dynamic_id::<R2>(r.1),
        _ => ResourceId::new_with_dynamic_id::<R3>(r.1),
    }
}

#[derive(Clone, Debug, PartialEq)]
pub enum EvK {
    Enter,
    Exit,
    Setup,
    Dispose,
    Shape(Vec<Vec<usize>>, usize),
}

#[derive(Clone, Debug)]
pub struct Ev {
    pub k: EvK,
    pub uid: usize,
    pub thread: ThreadId,
}

pub struct Ctx {
    pub log: Mutex<Vec<Ev>>,
    pub ident: AtomicBool,
    /// the system with this uid panics inside its next run (once); NONE = nobody
    pub panic_uid: AtomicUsize,
    pub rv_x: AtomicUsize,
    pub rv_y: AtomicUsize,
    pub entered_x: AtomicBool,
    pub entered_y: AtomicBool,
    pub hold_ms: AtomicUsize,
    /// C15: when non-zero every system stays inside `run` until the gate is opened, at most this many milliseconds
    pub gate_ms: AtomicUsize,
    pub gate_open: AtomicBool,
    pub real_borrow: Arc<AtomicBool>,
}

pub const NONE: usize = usize::MAX;

impl Ctx {
    pub fn new() -> Arc<Ctx> {
        Arc::new(Ctx {
            log: Mutex::new(vec![]),
            ident: AtomicBool::new(false),
            panic_uid: AtomicUsize::new(NONE),
            rv_x: AtomicUsize::new(NONE),
            rv_y: AtomicUsize::new(NONE),
            entered_x: AtomicBool::new(false),
            entered_y: AtomicBool::new(false),
            hold_ms: AtomicUsize::new(250),
            gate_ms: AtomicUsize::new(0),
            gate_open: AtomicBool::new(false),
            real_borrow: Arc::new(AtomicBool::new(false)),
        })
    }
    pub fn ev(&self, k: EvK, uid: usize) {
        self.log.lock().unwrap().push(Ev { k, uid, thread: std::thread::current().id() });
    }
    pub fn take(&self) -> Vec<Ev> {
        std::mem::take(&mut *self.log.lock().unwrap())
    }
    /// both members of the rendezvous pair stay inside `run` until the other one has entered (or the hold expires)
    pub fn hold(&self, uid: usize) {
        if uid != NONE && self.panic_uid.compare_exchange(uid, NONE, Ordering::SeqCst, Ordering::SeqCst).is_ok() {
            panic!("armed panic of harness system #{}", uid);
        }
        let g = self.gate_ms.load(Ordering::SeqCst);
        if g > 0 {
            let end = Instant::now() + Duration::from_millis(g as u64);
            while !self.gate_open.load(Ordering::SeqCst) && Instant::now() < end {
                std::thread::yield_now();
            }
        }
        let (x, y) = (self.rv_x.load(Ordering::SeqCst), self.rv_y.load(Ordering::SeqCst));
        let (mine, other) = if uid == x {
            (&self.entered_x, &self.entered_y)
        } else if uid == y {
            (&self.entered_y, &self.entered_x)
        } else {
            return;
        };
        mine.store(true, Ordering::SeqCst);
        let end = Instant::now() + Duration::from_millis(self.hold_ms.load(Ordering::SeqCst) as u64);
        while !other.load(Ordering::SeqCst) && Instant::now() < end {
            std::thread::yield_now();
        }
    }
}

pub struct DynAcc {
    reads: Vec<ResourceId>,
    writes: Vec<ResourceId>,
    raw_reads: Vec<Res>,
    raw_writes: Vec<Res>,
    /// really borrow during fetch (switched on only for the runs that look for sibling-caused borrow panics)
    on: Arc<AtomicBool>,
    /// set for systems that do NOT override System::setup: their setup is the setup of their system data (logged here)
    data_setup: Option<(Arc<Ctx>, usize)>,
}
impl Accessor for DynAcc {
    fn try_new() -> Option<Self> {
        None
    }
    fn reads(&self) -> Vec<ResourceId> {
        self.reads.clone()
    }
    fn writes(&self) -> Vec<ResourceId> {
        self.writes.clone()
    }
}

/// the system data of the harness systems REALLY borrows what the accessor declares (each existing resource once:
/// exclusively if it is among the writes, shared otherwise), so a sibling-caused borrow conflict shows up as the panic C01 forbids
pub enum HeldGuard<'a> {
    S0(shred::Fetch<'a, R0>),
    S1(shred::Fetch<'a, R1>),
    S2(shred::Fetch<'a, R2>),
    S3(shred::Fetch<'a, R3>),
    X0(shred::FetchMut<'a, R0>),
    X1(shred::FetchMut<'a, R1>),
    X2(shred::FetchMut<'a, R2>),
    X3(shred::FetchMut<'a, R3>),
}
pub struct DynData<'a> {
    pub held: Vec<HeldGuard<'a>>,
}
impl<'a> DynamicSystemData<'a> for DynData<'a> {
    type Accessor = DynAcc;
    fn setup(acc: &DynAcc, _: &mut World) {
        if let Some((ctx, uid)) = &acc.data_setup {
            ctx.ev(EvK::Setup, *uid);
        }
    }
    fn fetch(acc: &DynAcc, world: &'a World) -> Self {
        let mut held = vec![];
        let mut done: Vec<Res> = vec![];
        if !acc.on.load(Ordering::SeqCst) {
            return DynData { held };
        }
        for w in &acc.raw_writes {
            if done.contains(w) {
                continue;
            }
            done.push(*w);
            let g = match w.0 % 4 {
                0 => world.try_fetch_mut_by_id::<R0>(rid(*w)).map(HeldGuard::X0),
                1 => world.try_fetch_mut_by_id::<R1>(rid(*w)).map(HeldGuard::X1),
                2 => world.try_fetch_mut_by_id::<R2>(rid(*w)).map(HeldGuard::X2),
                _ => world.try_fetch_mut_by_id::<R3>(rid(*w)).map(HeldGuard::X3),
            };
            held.extend(g);
        }
        for r in &acc.raw_reads {
            if done.contains(r) {
                continue;
            }
            done.push(*r);
            let g = match r.0 % 4 {
                0 => world.try_fetch_by_id::<R0>(rid(*r)).map(HeldGuard::S0),
                1 => world.try_fetch_by_id::<R1>(rid(*r)).map(HeldGuard::S1),
                2 => world.try_fetch_by_id::<R2>(rid(*r)).map(HeldGuard::S2),
                _ => world.try_fetch_by_id::<R3>(rid(*r)).map(HeldGuard::S3),
            };
            held.extend(g);
        }
        DynData { held }
    }
}

pub struct LogSys {
    uid: usize,
    acc: DynAcc,
    rt: u8,
    ctx: Arc<Ctx>,
}

impl LogSys {
    /// (used by the par/seq and async oracles: declares, but their worlds hold no such resources, so nothing is borrowed)
    pub fn new(uid: usize, reads: Vec<ResourceId>, writes: Vec<ResourceId>, rt: u8, ctx: Arc<Ctx>) -> LogSys {
        LogSys { uid, acc: DynAcc { reads, writes, raw_reads: vec![], raw_writes: vec![], on: ctx.real_borrow.clone(), data_setup: None }, rt, ctx }
    }
}

fn rt_of(rt: u8) -> RunningTime {
    match rt {
        1 => RunningTime::VeryShort,
        2 => RunningTime::Short,
        3 => RunningTime::Average,
        4 => RunningTime::Long,
        _ => RunningTime::VeryLong,
    }
}

impl<'a> System<'a> for LogSys {
    type SystemData = DynData<'a>;
    fn run(&mut self, _data: DynData<'a>) {
        self.ctx.ev(EvK::Enter, self.uid);
        self.ctx.hold(self.uid);
        self.ctx.ev(EvK::Exit, self.uid);
    }
    fn running_time(&self) -> RunningTime {
        rt_of(self.rt)
    }
    fn accessor<'b>(&'b self) -> AccessorCow<'a, 'b, Self> {
        AccessorCow::Ref(&self.acc)
    }
    fn setup(&mut self, _: &mut World) {
        self.ctx.ev(EvK::Setup, self.uid);
    }
    fn dispose(self, _: &mut World) {
        self.ctx.ev(EvK::Dispose, self.uid);
    }
}

/// The typed family: systems whose data is one of shred's OWN SystemData types over the static resources R0..R3 (the Option
/// forms, tuples, the Expect forms, derived bundles incl. a generic one), so that what the scheduler is told (the type's
/// reads() / writes()) and what fetch really borrows are both shred's.  model::TYPED lists what each really borrows.
#[derive(shred::SystemData)]
pub struct Timed<'a, D>
where
    D: shred::SystemData<'a>,
{
    pub clock: Read<'a, R1>,
    pub data: D,
}
#[derive(shred::SystemData)]
pub struct Pair<'a> {
    pub a: Write<'a, R1>,
    pub b: Read<'a, R0>,
}
macro_rules! typed {
    ($name:ident, $data:ty) => {
        pub struct $name {
            uid: usize,
            rt: u8,
            ctx: Arc<Ctx>,
        }
        impl<'a> System<'a> for $name {
            type SystemData = $data;
            fn run(&mut self, _data: $data) {
                self.ctx.ev(EvK::Enter, self.uid);
                self.ctx.hold(self.uid);
                self.ctx.ev(EvK::Exit, self.uid);
            }
            fn running_time(&self) -> RunningTime {
                rt_of(self.rt)
            }
            fn setup(&mut self, _: &mut World) {
                self.ctx.ev(EvK::Setup, self.uid);
            }
            fn dispose(self, _: &mut World) {
                self.ctx.ev(EvK::Dispose, self.uid);
            }
        }
    };
}
typed!(Ty0, Option<Write<'a, R0>>);
typed!(Ty1, (Option<Read<'a, R1>>, Write<'a, R2>));
typed!(Ty2, Timed<'a, Write<'a, R3>>);
typed!(Ty3, Pair<'a>);
typed!(Ty4, (shred::ReadExpect<'a, R2>, Option<Write<'a, R3>>));
typed!(Ty5, (Option<Read<'a, R0>>, Read<'a, R3>));
typed!(Ty6, (Write<'a, R2>,));
typed!(Ty7, (Read<'a, R3>,));

/// like LogSys, but it relies on the provided `System::setup` (= the setup of its system data through `self.accessor()`)
pub struct LogSys2(LogSys);
impl<'a> System<'a> for LogSys2 {
    type SystemData = DynData<'a>;
    fn run(&mut self, data: DynData<'a>) {
        <LogSys as System<'a>>::run(&mut self.0, data)
    }
    fn running_time(&self) -> RunningTime {
        rt_of(self.0.rt)
    }
    fn accessor<'b>(&'b self) -> AccessorCow<'a, 'b, Self> {
        AccessorCow::Ref(&self.0.acc)
    }
    fn dispose(self, _: &mut World) {
        self.0.ctx.ev(EvK::Dispose, self.0.uid);
    }
}

/// an accessor type that HAS a default (no dependencies) on a system that nevertheless overrides `accessor()` with
/// per-instance ids: whoever asks the type instead of the system gets the empty lists
pub struct DynAccD {
    reads: Vec<ResourceId>,
    writes: Vec<ResourceId>,
}
impl Accessor for DynAccD {
    fn try_new() -> Option<Self> {
        Some(DynAccD { reads: vec![], writes: vec![] })
    }
    fn reads(&self) -> Vec<ResourceId> {
        self.reads.clone()
    }
    fn writes(&self) -> Vec<ResourceId> {
        self.writes.clone()
    }
}
pub struct DynDataD;
impl<'a> DynamicSystemData<'a> for DynDataD {
    type Accessor = DynAccD;
    fn setup(_: &DynAccD, _: &mut World) {}
    fn fetch(_: &DynAccD, _: &'a World) -> Self {
        DynDataD
    }
}
pub struct LogSysD {
    uid: usize,
    acc: DynAccD,
    ctx: Arc<Ctx>,
}
impl LogSysD {
    pub fn new(uid: usize, reads: Vec<ResourceId>, writes: Vec<ResourceId>, ctx: Arc<Ctx>) -> LogSysD {
        LogSysD { uid, acc: DynAccD { reads, writes }, ctx }
    }
}
impl<'a> System<'a> for LogSysD {
    type SystemData = DynDataD;
    fn run(&mut self, _: DynDataD) {
        self.ctx.ev(EvK::Enter, self.uid);
        self.ctx.hold(self.uid);
        self.ctx.ev(EvK::Exit, self.uid);
    }
    fn accessor<'b>(&'b self) -> AccessorCow<'a, 'b, Self> {
        AccessorCow::Ref(&self.acc)
    }
    fn setup(&mut self, _: &mut World) {
        self.ctx.ev(EvK::Setup, self.uid);
    }
}

macro_rules! ctl {
    ($name:ident, $data:ty) => {
        pub struct $name {
            uid: usize,
            n: usize,
            rt: u8,
            ctx: Arc<Ctx>,
        }
        impl<'a, 'b, 'c> BatchController<'a, 'b, 'c> for $name {
            type BatchSystemData = $data;
            fn run(&mut self, world: &'c World, dispatcher: &mut Dispatcher<'a, 'b>) {
                self.ctx.ev(EvK::Enter, self.uid);
                let (sh, tl) = dispatcher.vx_shape();
                self.ctx.ev(EvK::Shape(sh, tl), self.uid);
                self.ctx.hold(self.uid);
                if self.ctx.ident.load(Ordering::SeqCst) {
                    dispatcher.dispatch_seq(world);
                    dispatcher.dispatch_thread_local(world);
                } else {
                    for _ in 0..self.n {
                        dispatcher.dispatch(world);
                    }
                }
                self.ctx.ev(EvK::Exit, self.uid);
            }
            fn running_time(&self) -> RunningTime {
                rt_of(self.rt)
            }
        }
    };
}
ctl!(Ctl0, ());
ctl!(Ctl1, Read<'c, R0>);
ctl!(Ctl2, Write<'c, R0>);
ctl!(Ctl3, Write<'c, R1>);

macro_rules! plan_ctl {
    ($name:ident, $data:ty) => {
        pub struct $name {
            uid: usize,
            n: usize,
            ctx: Arc<Ctx>,
        }
        impl<'c> MultiDispatchController<'c> for $name {
            type SystemData = $data;
            fn plan(&mut self, _data: $data) -> usize {
                // the controller's declared data is really borrowed while plan runs: that is the window an outside
                // system conflicting with the controller's data must stay out of
                self.ctx.ev(EvK::Enter, self.uid);
                self.ctx.hold(self.uid);
                self.ctx.ev(EvK::Exit, self.uid);
                self.n
            }
        }
    };
}
plan_ctl!(Plan0, ());
plan_ctl!(Plan1, Read<'c, R0>);
plan_ctl!(Plan2, Write<'c, R0>);
plan_ctl!(Plan3, Write<'c, R1>);

/// a whole dispatcher used as one thread-local system of another one: everything goes through Dispatcher's RunNow impl
pub enum Nested {
    Full(Dispatcher<'static, 'static>),
    Sendable(shred::SendDispatcher<'static>),
}
pub struct NestSys {
    uid: usize,
    ctx: Arc<Ctx>,
    d: Nested,
}
impl<'a> RunNow<'a> for NestSys {
    fn run_now(&mut self, world: &'a World) {
        self.ctx.ev(EvK::Enter, self.uid);
        match &mut self.d {
            Nested::Full(d) => RunNow::run_now(d, world),
            Nested::Sendable(d) => RunNow::run_now(d, world),
        }
        self.ctx.ev(EvK::Exit, self.uid);
    }
    fn setup(&mut self, world: &mut World) {
        match &mut self.d {
            Nested::Full(d) => RunNow::setup(d, world),
            Nested::Sendable(d) => RunNow::setup(d, world),
        }
    }
    fn dispose(self: Box<Self>, world: &mut World) {
        let me = *self;
        match me.d {
            Nested::Full(d) => RunNow::dispose(Box::new(d), world),
            Nested::Sendable(d) => RunNow::dispose(Box::new(d), world),
        }
    }
}

/// zero-sized thread-local systems (their identity lives in statics)
pub static ZCTX: Mutex<Option<Arc<Ctx>>> = Mutex::new(None);
pub static ZUID: [AtomicUsize; 3] = [AtomicUsize::new(NONE), AtomicUsize::new(NONE), AtomicUsize::new(NONE)];
fn zev(k: EvK, slot: usize) {
    if let Some(c) = ZCTX.lock().unwrap().as_ref() {
        c.ev(k, ZUID[slot].load(Ordering::SeqCst));
    }
}
macro_rules! zst {
    ($name:ident, $slot:expr) => {
        pub struct $name;
        impl<'a> System<'a> for $name {
            type SystemData = ();
            fn run(&mut self, _: ()) {
                zev(EvK::Enter, $slot);
                let c = ZCTX.lock().unwrap().clone();
                if let Some(c) = c {
                    c.hold(ZUID[$slot].load(Ordering::SeqCst));
                }
                zev(EvK::Exit, $slot);
            }
            fn setup(&mut self, _: &mut World) {
                zev(EvK::Setup, $slot);
            }
            fn dispose(self, _: &mut World) {
                zev(EvK::Dispose, $slot);
            }
        }
    };
}
zst!(Zst0, 0);
zst!(Zst1, 1);
zst!(Zst2, 2);

pub fn ctl_access(ctl: u8) -> (Vec<Res>, Vec<Res>) {
    match ctl {
        1 => (vec![(0, 0)], vec![]),
        2 => (vec![], vec![(0, 0)]),
        3 => (vec![], vec![(1, 0)]),
        _ => (vec![], vec![]),
    }
}

#[derive(Clone, Copy, Debug, PartialEq)]
pub enum Kind {
    Sys,
    Tl,
    Batch,
    Nest,
}

#[derive(Clone, Debug)]
pub struct Info {
    pub uid: usize,
    pub kind: Kind,
    pub name: String,
    pub deps: Vec<usize>,       // uids (resolved for well-formed sequences; unknown names are skipped)
    pub reads: BTreeSet<Res>,   // for a batch: union of the controller's data and everything inside
    pub writes: BTreeSet<Res>,
    pub parent: Option<usize>,
    pub reg: usize,   // position among the non-barrier registrations of its builder
    pub epoch: usize, // number of add_barrier calls before it in its builder
    pub n: usize,     // batch: inner dispatches per run (nest: 1)
    pub multi: bool,  // batch registered through MultiDispatcher
    pub rt: u8,
}

pub fn conflict(a: &Info, b: &Info) -> Option<Res> {
    for w in &a.writes {
        if b.reads.contains(w) || b.writes.contains(w) {
            return Some(*w);
        }
    }
    for r in &a.reads {
        if b.writes.contains(r) {
            return Some(*r);
        }
    }
    None
}

/// assigns uids in pre-order and computes what the properties say each registration stands for
pub fn infos(case: &Case) -> Vec<Info> {
    fn rec(ops: &[Op], parent: Option<usize>, out: &mut Vec<Info>) -> (BTreeSet<Res>, BTreeSet<Res>) {
        let mut names: HashMap<String, usize> = HashMap::new();
        let mut epoch = 0;
        let mut reg = 0;
        let (mut ar, mut aw) = (BTreeSet::new(), BTreeSet::new());
        for op in ops {
            match op {
                Op::Barrier => epoch += 1,
                Op::Sys(s) | Op::Tl(s) => {
                    let uid = out.len();
                    let kind = if matches!(op, Op::Sys(_)) { Kind::Sys } else { Kind::Tl };
                    let deps = s.deps.iter().filter_map(|d| names.get(d).copied()).collect();
                    let mut reads: BTreeSet<Res> = s.reads.iter().copied().collect();
                    let mut writes: BTreeSet<Res> = s.writes.iter().copied().collect();
                    if kind == Kind::Sys {
                        if let Some((r, w)) = typed_access(s.zst) {
                            // a member of the typed family borrows what its type says, whatever the case text lists
                            reads = r.into_iter().collect();
                            writes = w.into_iter().collect();
                        }
                    }
                    if kind == Kind::Sys {
                        ar.extend(reads.iter().copied());
                        aw.extend(writes.iter().copied());
                        if !s.name.is_empty() {
                            names.entry(s.name.clone()).or_insert(uid);
                        }
                    }
                    out.push(Info { uid, kind, name: s.name.clone(), deps, reads, writes, parent, reg, epoch, n: 0, multi: false, rt: s.rt });
                    reg += 1;
                }
                Op::Batch(b) => {
                    let uid = out.len();
                    let deps = b.deps.iter().filter_map(|d| names.get(d).copied()).collect();
                    out.push(Info {
                        uid,
                        kind: Kind::Batch,
                        name: b.name.clone(),
                        deps,
                        reads: BTreeSet::new(),
                        writes: BTreeSet::new(),
                        parent,
                        reg,
                        epoch,
                        n: b.n,
                        multi: b.multi,
                        rt: b.rt,
                    });
                    reg += 1;
                    let (mut r, mut w) = rec(&b.inner, Some(uid), out);
                    let (cr, cw) = ctl_access(b.ctl);
                    r.extend(cr);
                    w.extend(cw);
                    ar.extend(r.iter().copied());
                    aw.extend(w.iter().copied());
                    out[uid].reads = r;
                    out[uid].writes = w;
                    if !b.name.is_empty() {
                        names.entry(b.name.clone()).or_insert(uid);
                    }
                }
                Op::Nest(inner) => {
                    let uid = out.len();
                    out.push(Info {
                        uid,
                        kind: Kind::Nest,
                        name: String::new(),
                        deps: vec![],
                        reads: BTreeSet::new(),
                        writes: BTreeSet::new(),
                        parent,
                        reg,
                        epoch,
                        n: 1,
                        multi: false,
                        rt: 3,
                    });
                    reg += 1;
                    rec(inner, Some(uid), out);
                }
            }
        }
        (ar, aw)
    }
    let mut out = vec![];
    rec(&case.ops, None, &mut out);
    out
}

pub static POOL_SIZE: AtomicUsize = AtomicUsize::new(8);

/// the pool handed to every builder of the current case (size POOL_SIZE; pools are created once per size)
pub fn pool() -> Arc<rayon::ThreadPool> {
    static P: OnceLock<Mutex<HashMap<usize, Arc<rayon::ThreadPool>>>> = OnceLock::new();
    let n = POOL_SIZE.load(Ordering::SeqCst).max(1);
    let mut m = P.get_or_init(|| Mutex::new(HashMap::new())).lock().unwrap();
    m.entry(n).or_insert_with(|| Arc::new(rayon::ThreadPoolBuilder::new().num_threads(n).build().unwrap())).clone()
}

pub type Builder = DispatcherBuilder<'static, 'static>;

fn mk_sys(s: &SysSpec, uid: usize, ctx: &Arc<Ctx>) -> LogSys {
    LogSys {
        uid,
        acc: DynAcc {
            reads: s.reads.iter().map(|r| rid(*r)).collect(),
            writes: s.writes.iter().map(|r| rid(*r)).collect(),
            raw_reads: s.reads.clone(),
            raw_writes: s.writes.clone(),
            on: ctx.real_borrow.clone(),
            data_setup: None,
        },
        rt: s.rt,
        ctx: ctx.clone(),
    }
}

/// applies one registration to the real builder (may panic exactly as the real call does)
pub fn apply(b: &mut Builder, op: &Op, uid: &mut usize, ctx: &Arc<Ctx>) {
    match op {
        Op::Barrier => b.add_barrier(),
        Op::Sys(s) => {
            let my = *uid;
            *uid += 1;
            let deps: Vec<&str> = s.deps.iter().map(|d| d.as_str()).collect();
            if typed_access(s.zst).is_some() {
                let (uid, rt, ctx) = (my, s.rt, ctx.clone());
                match s.zst - 10 {
                    0 => b.add(Ty0 { uid, rt, ctx }, &s.name, &deps),
                    1 => b.add(Ty1 { uid, rt, ctx }, &s.name, &deps),
                    2 => b.add(Ty2 { uid, rt, ctx }, &s.name, &deps),
                    3 => b.add(Ty3 { uid, rt, ctx }, &s.name, &deps),
                    4 => b.add(Ty4 { uid, rt, ctx }, &s.name, &deps),
                    5 => b.add(Ty5 { uid, rt, ctx }, &s.name, &deps),
                    6 => b.add(Ty6 { uid, rt, ctx }, &s.name, &deps),
                    _ => b.add(Ty7 { uid, rt, ctx }, &s.name, &deps),
                }
            } else if my % 3 == 1 {
                let mut sys = mk_sys(s, my, ctx);
                sys.acc.data_setup = Some((ctx.clone(), my));
                b.add(LogSys2(sys), &s.name, &deps);
            } else {
                b.add(mk_sys(s, my, ctx), &s.name, &deps);
            }
        }
        Op::Tl(s) => {
            let my = *uid;
            *uid += 1;
            if (1..=3).contains(&s.zst) {
                *ZCTX.lock().unwrap() = Some(ctx.clone());
                ZUID[s.zst as usize - 1].store(my, Ordering::SeqCst);
                match s.zst {
                    1 => b.add_thread_local(Zst0),
                    2 => b.add_thread_local(Zst1),
                    _ => b.add_thread_local(Zst2),
                }
            } else {
                b.add_thread_local(mk_sys(s, my, ctx));
            }
        }
        Op::Nest(ops) => {
            let my = *uid;
            *uid += 1;
            let mut inner = Builder::new();
            inner.add_pool(pool());
            for o in ops {
                apply(&mut inner, o, uid, ctx);
            }
            // a nested dispatcher without thread-local systems goes in as a SendDispatcher (every other time)
            let built = inner.build();
            let d = if my % 2 == 0 {
                match built.try_into_sendable() {
                    Ok(s) => Nested::Sendable(s),
                    Err(d) => Nested::Full(d),
                }
            } else {
                Nested::Full(built)
            };
            b.add_thread_local(NestSys { uid: my, ctx: ctx.clone(), d });
        }
        Op::Batch(bs) => {
            let my = *uid;
            *uid += 1;
            let mut inner = Builder::new();
            // (a nested builder would otherwise create a fresh default pool for its own batches)
            inner.add_pool(pool());
            for o in &bs.inner {
                apply(&mut inner, o, uid, ctx);
            }
            let deps: Vec<&str> = bs.deps.iter().map(|d| d.as_str()).collect();
            let (n, rt, c) = (bs.n, bs.rt, ctx.clone());
            if bs.multi {
                match bs.ctl {
                    1 => b.add_batch(MultiDispatcher::new(Plan1 { uid: my, n, ctx: c }), inner, &bs.name, &deps),
                    2 => b.add_batch(MultiDispatcher::new(Plan2 { uid: my, n, ctx: c }), inner, &bs.name, &deps),
                    3 => b.add_batch(MultiDispatcher::new(Plan3 { uid: my, n, ctx: c }), inner, &bs.name, &deps),
                    _ => b.add_batch(MultiDispatcher::new(Plan0 { uid: my, n, ctx: c }), inner, &bs.name, &deps),
                }
                return;
            }
            match bs.ctl {
                1 => b.add_batch(Ctl1 { uid: my, n, rt, ctx: c }, inner, &bs.name, &deps),
                2 => b.add_batch(Ctl2 { uid: my, n, rt, ctx: c }, inner, &bs.name, &deps),
                3 => b.add_batch(Ctl3 { uid: my, n, rt, ctx: c }, inner, &bs.name, &deps),
                _ => b.add_batch(Ctl0 { uid: my, n, rt, ctx: c }, inner, &bs.name, &deps),
            }
        }
    }
}

pub fn count_uids(op: &Op) -> usize {
    match op {
        Op::Barrier => 0,
        Op::Batch(b) => 1 + b.inner.iter().map(count_uids).sum::<usize>(),
        Op::Nest(i) => 1 + i.iter().map(count_uids).sum::<usize>(),
        _ => 1,
    }
}

pub fn panic_msg(p: Box<dyn std::any::Any + Send>) -> String {
    if let Some(s) = p.downcast_ref::<String>() {
        s.clone()
    } else if let Some(s) = p.downcast_ref::<&str>() {
        s.to_string()
    } else {
        "<non-string panic payload>".into()
    }
}

#[derive(Clone, Debug, Default, PartialEq)]
pub struct Plan {
    pub stages: Vec<Vec<Vec<usize>>>,
    pub tl: Vec<usize>,
}

impl Plan {
    pub fn pos(&self, uid: usize) -> Option<(usize, usize, usize)> {
        for (s, st) in self.stages.iter().enumerate() {
            for (g, gr) in st.iter().enumerate() {
                for (p, u) in gr.iter().enumerate() {
                    if *u == uid {
                        return Some((s, g, p));
                    }
                }
            }
        }
        None
    }
}

pub struct Live {
    pub infos: Vec<Info>,
    pub ctx: Arc<Ctx>,
    pub dispatcher: Option<Dispatcher<'static, 'static>>,
    pub world: World,
    pub debug_text: Result<String, String>,
    pub pretty_text: Result<String, String>,
    pub max_threads: usize,
    pub shape: (Vec<Vec<usize>>, usize),
    pub setup_events: Vec<Ev>,
    pub pre_setup_r0: u64,
}

/// builds the case with the real builder.  Err = a panic of a builder call (index of the op, message).
pub fn build(case: &Case) -> Result<Live, (usize, String)> {
    build_with(case, false)
}

/// `refused_duplicates`: after every named top-level system, a second registration under the same name is attempted and
/// its panic caught (C18 says the call panics; C20 says the print of what IS registered stays faithful)
pub fn build_with(case: &Case, refused_duplicates: bool) -> Result<Live, (usize, String)> {
    let ctx = Ctx::new();
    let mut b = Builder::new();
    b.add_pool(pool());
    let mut uid = 0;
    for (i, op) in case.ops.iter().enumerate() {
        let r = catch_unwind(AssertUnwindSafe(|| apply(&mut b, op, &mut uid, &ctx)));
        if let Err(p) = r {
            return Err((i, panic_msg(p)));
        }
        if refused_duplicates {
            if let Op::Sys(s) = op {
                if !s.name.is_empty() {
                    let dup = LogSys::new(NONE - 1, vec![], vec![], 3, ctx.clone());
                    let name = s.name.clone();
                    let refused = catch_unwind(AssertUnwindSafe(|| b.add(dup, &name, &[]))).is_err();
                    if !refused {
                        return Err((i, format!("a second registration under the name `{}` was accepted", name)));
                    }
                }
            }
        }
    }
    let debug_text = catch_unwind(AssertUnwindSafe(|| format!("{:?}", b))).map_err(panic_msg);
    let pretty_text = catch_unwind(AssertUnwindSafe(|| format!("{:#?}", b))).map_err(panic_msg);
    let d = match catch_unwind(AssertUnwindSafe(|| b.build())) {
        Ok(d) => d,
        Err(p) => return Err((case.ops.len(), panic_msg(p))),
    };
    let shape = d.vx_shape();
    let max_threads = d.max_threads();
    let mut world = World::empty();
    // a resource that exists before setup must keep its value (C13)
    world.insert(R0(4711));
    // every resource id the generator draws from exists, so declared access is really borrowed during run
    for r in crate::model::RES_POOL.iter() {
        if *r == (0, 0) {
            continue;
        }
        match r.0 % 4 {
            0 => world.insert_by_id(rid(*r), R0(0)),
            1 => world.insert_by_id(rid(*r), R1(0)),
            2 => world.insert_by_id(rid(*r), R2(0)),
            _ => world.insert_by_id(rid(*r), R3(0)),
        }
    }
    Ok(Live {
        infos: infos(case),
        ctx,
        dispatcher: Some(d),
        world,
        debug_text,
        pretty_text,
        max_threads,
        shape,
        setup_events: vec![],
        pre_setup_r0: 4711,
    })
}

pub struct Obs {
    pub top: Plan,
    pub inner: HashMap<usize, Plan>,
    pub ident_events: Vec<Ev>,
}

impl Live {
    pub fn setup(&mut self) {
        let d = self.dispatcher.as_mut().unwrap();
        d.setup(&mut self.world);
        self.setup_events = self.ctx.take();
    }

    /// one sequential run with controllers in identification mode; maps the run order onto the probed shape
    pub fn identify(&mut self) -> Result<Obs, String> {
        self.ctx.take();
        self.ctx.ident.store(true, Ordering::SeqCst);
        {
            let d = self.dispatcher.as_mut().unwrap();
            d.dispatch_seq(&self.world);
            d.dispatch_thread_local(&self.world);
        }
        self.ctx.ident.store(false, Ordering::SeqCst);
        let evs = self.ctx.take();
        let mut seqs: HashMap<Option<usize>, Vec<usize>> = HashMap::new();
        let mut shapes: HashMap<usize, (Vec<Vec<usize>>, usize)> = HashMap::new();
        for e in &evs {
            match &e.k {
                EvK::Enter => seqs.entry(self.infos.get(e.uid).and_then(|i| i.parent)).or_default().push(e.uid),
                EvK::Shape(s, t) => {
                    shapes.insert(e.uid, (s.clone(), *t));
                }
                _ => {}
            }
        }
        let fit = |shape: &(Vec<Vec<usize>>, usize), seq: &[usize], what: &str| -> Result<Plan, String> {
            let slots: usize = shape.0.iter().map(|s| s.iter().sum::<usize>()).sum();
            if slots + shape.1 != seq.len() {
                return Err(format!(
                    "{}: the built dispatcher has {} staged + {} thread-local slots but one sequential dispatch ran {} systems",
                    what,
                    slots,
                    shape.1,
                    seq.len()
                ));
            }
            let mut it = seq.iter().copied();
            let stages = shape.0.iter().map(|st| st.iter().map(|n| (0..*n).map(|_| it.next().unwrap()).collect()).collect()).collect();
            Ok(Plan { stages, tl: it.collect() })
        };
        let empty = vec![];
        let top = fit(&self.shape, seqs.get(&None).unwrap_or(&empty), "top-level dispatcher")?;
        let mut inner = HashMap::new();
        for i in &self.infos {
            // a level can be identified only if every enclosing controller dispatched exactly once in this run
            let mut anc = i.parent;
            let mut clean = true;
            while let Some(p) = anc {
                clean &= self.infos[p].kind == Kind::Batch && !self.infos[p].multi;
                anc = self.infos[p].parent;
            }
            if i.kind == Kind::Batch && !i.multi && clean {
                if let Some(sh) = shapes.get(&i.uid) {
                    inner.insert(i.uid, fit(sh, seqs.get(&Some(i.uid)).unwrap_or(&empty), &format!("batch `{}` (uid {})", i.name, i.uid))?);
                }
            }
        }
        Ok(Obs { top, inner, ident_events: evs })
    }

    /// parallel dispatch in which x and y each stay inside run until the other has entered; returns the event log
    pub fn rendezvous_ms(&mut self, x: usize, y: usize, with_tl: bool, hold_ms: usize) -> Vec<Ev> {
        self.ctx.hold_ms.store(hold_ms, Ordering::SeqCst);
        self.ctx.take();
        self.ctx.entered_x.store(false, Ordering::SeqCst);
        self.ctx.entered_y.store(false, Ordering::SeqCst);
        self.ctx.rv_x.store(x, Ordering::SeqCst);
        self.ctx.rv_y.store(y, Ordering::SeqCst);
        {
            let d = self.dispatcher.as_mut().unwrap();
            if with_tl {
                d.dispatch(&self.world);
            } else {
                d.dispatch_par(&self.world);
            }
        }
        self.ctx.rv_x.store(NONE, Ordering::SeqCst);
        self.ctx.rv_y.store(NONE, Ordering::SeqCst);
        self.ctx.take()
    }
}

impl Live {
    pub fn rendezvous(&mut self, x: usize, y: usize, with_tl: bool) -> Vec<Ev> {
        self.rendezvous_ms(x, y, with_tl, 250)
    }
}

pub fn first_index(evs: &[Ev], k: &EvK, uid: usize) -> Option<usize> {
    evs.iter().position(|e| e.uid == uid && &e.k == k)
}
