//! vx-replay: bounded search / replay of registration sequences against the real crate.
//!
//!   vx-replay search --prop C10 --cases 4000 --seed 1 [--time-ms 20000] --out FILE
//!       exit 0: no failing input among the cases explored (prints `explored=<n> skipped=<m>`)
//!       exit 1: a failing input was found, shrunk and written to FILE
//!   vx-replay replay --prop C10 --file FILE
//!       exit 1 if the case in FILE still fails on this build of the crate, 0 if it holds

mod model;
mod oracle;
mod real;
mod world;
mod meta;
mod asyncd;
mod parseq;
mod sd;
mod sd_gen;

use std::{
    panic::{catch_unwind, AssertUnwindSafe},
    time::{Duration, Instant},
};

use model::*;
use oracle::{check, Verdict};

fn shape_for(prop: &str, i: usize) -> Shape {
    let mut s = Shape::base();
    let v = i % 4;
    match prop {
        "C01" => {
            s.n_res = 2 + v;
            s.p_dep = 15;
            s.max_ops = 8 + 4 * v;
            // systems whose data is one of shred's own SystemData types (what the scheduler is told is then shred's too)
            s.p_typed = [0, 35, 70, 0][v];
            if v == 2 {
                s.n_res = 4;
            }
            if v == 3 && i % 8 == 3 {
                // long conflict lanes with skewed running-time hints: groups fill up to capacity (the guards of insertion_target)
                s.lanes = true;
                s.rt_skew = true;
                s.max_ops = 40;
                s.n_res = 3;
                s.p_batch = 0;
            }
        }
        "C02" => {
            s.p_dep = 70;
            s.p_barrier = [0, 10, 20, 10][v];
            s.n_res = 3 + v;
            s.max_ops = 7 + 3 * v;
            if v == 3 {
                // long conflict lanes with skewed running times: groups fill up to capacity, dependencies point into them
                s.lanes = true;
                s.rt_skew = true;
                s.max_ops = 40;
                s.n_res = 3;
                s.p_dep = 45;
                s.p_batch = 0;
            }
        }
        "C03" => {
            s.p_barrier = [25, 35, 15, 30][v];
            s.p_dep = 25;
            s.n_res = 3 + 2 * v;
        }
        "C04" => {
            s.max_ops = [6, 14, 40, 12][v];
            s.funnel = v == 1;
            s.lanes = v == 2;
            s.n_res = [5, 5, 12, 4][v];
            s.p_batch = 15;
            s.p_multi = 40;
            s.p_nest = 6;
            s.tl_in_batch = v == 3;
            real::POOL_SIZE.store([8, 3, 2, 1][v], std::sync::atomic::Ordering::SeqCst);
        }
        "C07" => {
            s.p_batch = 35;
            s.p_multi = [0, 50, 25, 0][v];
            s.n_res = 3 + v;
            s.p_barrier = 12;
            s.p_dep = 30;
            // thread-local systems of an inner builder run once per inner dispatch too (whatever the controller)
            s.tl_in_batch = v == 1 || v == 2;
            if s.tl_in_batch {
                s.p_tl = 18;
            }
        }
        "C10" => {
            s.funnel = v == 1;
            s.p_dep = [20, 40, 60, 50][v];
            s.p_barrier = [0, 10, 20, 10][v];
            s.n_res = 2 + v * 2;
            s.max_ops = 6 + 4 * v;
            s.p_batch = 5;
            real::POOL_SIZE.store([8, 2, 8, 1][v], std::sync::atomic::Ordering::SeqCst);
        }
        "C12" => {
            s.p_tl = 30;
            s.p_batch = 8;
            s.p_zst = [0, 100, 50, 0][v];
            s.tl_in_batch = v == 2;
            s.p_nest = [0, 0, 0, 12][v];
            if v == 2 {
                s.p_batch = 25;
                s.p_multi = 35;
            }
        }
        "C13" => {
            s.p_batch = 25;
            s.p_tl = 15;
            s.tl_in_batch = true;
            s.p_nest = 8;
            s.p_multi = 30;
        }
        "C18" => {
            s.ill_formed = v != 2;
            s.exotic_names = true;
            s.max_ops = [8, 20, 60, 12][v];
            s.funnel = v == 2;
            s.lanes = v == 1 || v == 3;
            s.n_res = [5, 2, 5, 3][v];
            s.self_dep = v == 0;
            s.rt_skew = v == 3;
            if v == 3 {
                s.max_ops = 60;
                s.p_dep = 0;
                s.p_barrier = 0;
                s.p_batch = 0;
            }
            s.p_tl = 5;
        }
        "C19" => {
            s.ctl_data = v == 3;
            s.funnel = v == 1;
            s.p_dep = 40;
            s.n_res = 3 + v;
            s.max_ops = 6 + 3 * v;
        }
        "C20" => {
            s.exotic_names = true;
            s.p_named = [60, 90, 30, 75][v];
            s.funnel = v == 2;
            s.max_ops = [5, 9, 16, 9][v];
        }
        _ => {}
    }
    s
}

/// the case about to be executed is written next to the output file, so that a crash of the process (a memory-safety
/// violation of the crate under a mutation) still leaves the failing input behind
fn mark(out: &str, text: &str) {
    let _ = std::fs::write(format!("{}.current", out), text);
}

fn arg(args: &[String], key: &str) -> Option<String> {
    args.iter().position(|a| a == key).and_then(|i| args.get(i + 1).cloned())
}

fn guarded(prop: &str, case: &Case, seed: u64) -> Verdict {
    match catch_unwind(AssertUnwindSafe(|| check(prop, case, seed))) {
        Ok(v) => v,
        Err(p) => {
            let m = real::panic_msg(p);
            if prop == "C01" && m.contains("already") && m.contains("borrowed") {
                return Verdict::Fails(format!("a system that fetches only what it declared saw a borrow-conflict panic during dispatch: {}", m));
            }
            // a panic of the crate on a well-formed sequence is what C18 / C20 forbid; the other properties do not speak about it
            Verdict::Skip(format!("the crate panicked outside the builder calls: {}", m))
        }
    }
}

#[derive(Clone)]
enum Hist {
    W(world::WCase),
    M(meta::MCase),
}
impl Hist {
    fn run(&self) -> Option<(&'static str, String)> {
        match self {
            Hist::W(c) => world::run(c),
            Hist::M(c) => meta::run(c),
        }
    }
    fn to_text(&self) -> String {
        match self {
            Hist::W(c) => c.to_text(),
            Hist::M(c) => c.to_text(),
        }
    }
    fn len(&self) -> usize {
        match self {
            Hist::W(c) => c.ops.len(),
            Hist::M(c) => c.ops.len(),
        }
    }
    fn without(&self, k: usize) -> Hist {
        match self {
            Hist::W(c) => {
                let mut c = c.clone();
                c.ops.remove(k);
                Hist::W(c)
            }
            Hist::M(c) => {
                let mut c = c.clone();
                c.ops.remove(k);
                Hist::M(c)
            }
        }
    }
    fn from_text(text: &str) -> Result<Hist, String> {
        if text.lines().any(|l| l.trim_start().starts_with("m ")) {
            meta::MCase::from_text(text).map(Hist::M)
        } else {
            world::WCase::from_text(text).map(Hist::W)
        }
    }
}

fn world_search(prop: &str, cases: usize, seed: u64, end: Instant, out: &str) -> ! {
    let mut explored = 0usize;
    let mut distinct: std::collections::HashSet<String> = std::collections::HashSet::new();
    let mut samples: Vec<String> = vec![];
    for i in 0..cases {
        if Instant::now() > end {
            break;
        }
        let mut rng = Rng::new(seed.wrapping_mul(7_000_003).wrapping_add(i as u64));
        let use_meta = prop == "C17" || (prop == "C08" && i % 3 == 2);
        let case = if use_meta { Hist::M(meta::generate(&mut rng)) } else { Hist::W(world::generate(&mut rng)) };
        mark(out, &case.to_text());
        let r = catch_unwind(AssertUnwindSafe(|| case.run()));
        let fail = match r {
            // (iteration under live guards belongs to C17's quantifier as much as to C08's)
            Ok(Some((p, w))) if p == prop || (prop == "C17" && p == "C08") => Some(w),
            Ok(_) => None,
            Err(p) => {
                // a panic outside the guarded calls (e.g. while dropping the world): the typed-map property forbids it
                if prop == "C09" || prop == "C17" { Some(format!("the crate panicked outside a call that may panic: {}", real::panic_msg(p))) } else { None }
            }
        };
        if let Some(why) = fail {
            // greedy shrinking: drop one top-level operation at a time while the same property keeps failing
            let mut cur = case.clone();
            let mut progress = true;
            while progress {
                progress = false;
                for k in 0..cur.len() {
                    let c = cur.without(k);
                    if matches!(catch_unwind(AssertUnwindSafe(|| c.run())), Ok(Some((p, _))) if p == prop || (prop == "C17" && p == "C08")) {
                        cur = c;
                        progress = true;
                        break;
                    }
                }
            }
            let why2 = match catch_unwind(AssertUnwindSafe(|| cur.run())) {
                Ok(Some((_, w))) => w,
                _ => why,
            };
            let text = format!(
                "# property={}\n# found-by=bounded search of the real crate (World / MetaTable histories; seed {}, case {}, {} cases explored before it)\n# failure: {}\n{}",
                prop, seed, i, explored, why2.replace('\n', " "), cur.to_text()
            );
            std::fs::write(out, text).expect("cannot write the replay file");
            println!("FAIL {}", why2.replace('\n', " "));
            println!("explored={} skipped=0", explored);
            std::process::exit(1);
        }
        explored += 1;
        let t = case.to_text();
        if case.len() >= 2 && distinct.insert(t.clone()) && samples.len() < 2 && case.len() <= 6 {
            samples.push(t);
        }
    }
    println!("explored={} skipped=0 distinct_nontrivial={} first-skip-reason=", explored, distinct.len());
    for s in samples {
        println!("SAMPLE {}", s.trim_end().replace('\n', " | "));
    }
    std::process::exit(0);
}

fn main() {
    std::panic::set_hook(Box::new(|_| {}));
    let args: Vec<String> = std::env::args().collect();
    let cmd = args.get(1).map(|s| s.as_str()).unwrap_or("");
    let prop = arg(&args, "--prop").unwrap_or_default();
    match cmd {
        "search" => {
            let cases: usize = arg(&args, "--cases").and_then(|s| s.parse().ok()).unwrap_or(2000);
            let seed: u64 = arg(&args, "--seed").and_then(|s| s.parse().ok()).unwrap_or(1);
            let time_ms: u64 = arg(&args, "--time-ms").and_then(|s| s.parse().ok()).unwrap_or(30000);
            let out = arg(&args, "--out").unwrap_or_else(|| "vx-replay.case".into());
            let end = Instant::now() + Duration::from_millis(time_ms);
            if prop == "C15" {
                let mut explored = 0usize;
                let mut seen = std::collections::HashSet::new();
                let mut samples = vec![];
                for i in 0..cases {
                    if Instant::now() > end {
                        break;
                    }
                    let mut rng = Rng::new(seed.wrapping_mul(9_000_011).wrapping_add(i as u64));
                    let c = asyncd::generate(&mut rng);
                    mark(&out, &c.to_text());
                    match catch_unwind(AssertUnwindSafe(|| asyncd::run(&c))) {
                        Ok(Some(why)) => {
                            let text = format!("# property=C15\n# found-by=bounded search of the real crate (async dispatcher call sequences; seed {}, case {})\n# failure: {}\n{}", seed, i, why.replace('\n', " "), c.to_text());
                            std::fs::write(&out, text).expect("cannot write the replay file");
                            println!("FAIL {}", why.replace('\n', " "));
                            println!("explored={} skipped=0", explored);
                            std::process::exit(1);
                        }
                        Ok(None) => {
                            explored += 1;
                            let t = c.to_text();
                            if seen.insert(t.clone()) && samples.len() < 2 && t.lines().count() <= 9 {
                                samples.push(t.trim_end().replace('\n', " | "));
                            }
                        }
                        Err(_) => {}
                    }
                }
                println!("explored={} skipped=0 distinct_nontrivial={} first-skip-reason=", explored, seen.len());
                for s in samples {
                    println!("SAMPLE {}", s);
                }
                std::process::exit(0);
            }
            if prop == "C16" {
                let mut explored = 0usize;
                let mut seen = std::collections::HashSet::new();
                let mut samples = vec![];
                for i in 0..cases {
                    if Instant::now() > end {
                        break;
                    }
                    let mut rng = Rng::new(seed.wrapping_mul(3_000_017).wrapping_add(i as u64));
                    if i == 0 {
                        if let Some(why) = parseq::macro_cases() {
                            let text = format!("# property=C16\n# found-by=bounded search of the real crate (fixed trees written with par! / seq!)\n# failure: {}\nmacro-cases\n", why.replace('\n', " "));
                            std::fs::write(&out, text).expect("cannot write the replay file");
                            println!("FAIL {}", why.replace('\n', " "));
                            println!("explored={} skipped=0", explored);
                            std::process::exit(1);
                        }
                    }
                    let tree = parseq::generate(&mut rng);
                    mark(&out, &tree.to_text());
                    match catch_unwind(AssertUnwindSafe(|| parseq::run(&tree))) {
                        Ok(Some(why)) => {
                            let text = format!("# property=C16\n# found-by=bounded search of the real crate (par/seq trees; seed {}, case {})\n# failure: {}\n{}", seed, i, why.replace('\n', " "), tree.to_text());
                            std::fs::write(&out, text).expect("cannot write the replay file");
                            println!("FAIL {}", why.replace('\n', " "));
                            println!("explored={} skipped=0", explored);
                            std::process::exit(1);
                        }
                        Ok(None) => {
                            explored += 1;
                            let t = tree.to_text();
                            if seen.insert(t.clone()) && samples.len() < 2 && t.lines().count() <= 8 {
                                samples.push(t.trim_end().replace('\n', " | "));
                            }
                        }
                        Err(p) => {
                            // the leaves borrow nothing and never panic themselves; rejected par children are caught where they are added
                            let why = format!("building / setting up / dispatching the tree panicked: {}", real::panic_msg(p));
                            let text = format!("# property=C16\n# found-by=bounded search of the real crate (par/seq trees; seed {}, case {})\n# failure: {}\n{}", seed, i, why.replace('\n', " "), tree.to_text());
                            std::fs::write(&out, text).expect("cannot write the replay file");
                            println!("FAIL {}", why.replace('\n', " "));
                            println!("explored={} skipped=0", explored);
                            std::process::exit(1);
                        }
                    }
                }
                println!("explored={} skipped=0 distinct_nontrivial={} first-skip-reason=", explored, seen.len());
                for s in samples {
                    println!("SAMPLE {}", s);
                }
                std::process::exit(0);
            }
            if prop == "C06" {
                let mut explored = 0usize;
                let mut seen = std::collections::HashSet::new();
                let mut samples = vec![];
                for i in 0..cases {
                    if Instant::now() > end {
                        break;
                    }
                    let mut rng = Rng::new(seed.wrapping_mul(5_000_011).wrapping_add(i as u64));
                    let r = catch_unwind(AssertUnwindSafe(|| sd::explore(i, &mut rng)));
                    match r {
                        Ok((name, mask, Some(why))) => {
                            let text = format!("# property=C06\n# found-by=bounded search of the real crate (system-data family; seed {}, case {})\n# failure: {}\nsd name={} mask={}\n", seed, i, why.replace('\n', " "), name, mask);
                            std::fs::write(&out, text).expect("cannot write the replay file");
                            println!("FAIL {}", why.replace('\n', " "));
                            println!("explored={} skipped=0", explored);
                            std::process::exit(1);
                        }
                        Ok((name, mask, None)) => {
                            explored += 1;
                            if seen.insert((name.clone(), mask)) && samples.len() < 2 {
                                samples.push(format!("sd name={} mask={:#x}", name, mask));
                            }
                        }
                        Err(_) => {}
                    }
                }
                println!("explored={} skipped=0 distinct_nontrivial={} first-skip-reason=", explored, seen.len());
                for s in samples {
                    println!("SAMPLE {}", s);
                }
                std::process::exit(0);
            }
            if prop == "C08" || prop == "C09" || prop == "C17" {
                world_search(&prop, cases, seed, end, &out);
            }
            let (mut explored, mut skipped) = (0usize, 0usize);
            let mut distinct: std::collections::HashSet<u64> = std::collections::HashSet::new();
            let mut samples: Vec<String> = vec![];
            let mut skip_reason = String::new();
            for i in 0..cases {
                if Instant::now() > end {
                    break;
                }
                let mut rng = Rng::new(seed.wrapping_mul(1_000_003).wrapping_add(i as u64));
                if prop == "C13" && i == 0 {
                    if let Ok(Some(why)) = catch_unwind(AssertUnwindSafe(parseq::thread_local_setup)) {
                        let text = format!("# property=C13\n# found-by=bounded search of the real crate (a par/seq tree as thread-local system)\n# failure: {}\nparseq-thread-local\n", why.replace('\n', " "));
                        std::fs::write(&out, text).expect("cannot write the replay file");
                        println!("FAIL {}", why.replace('\n', " "));
                        println!("explored={} skipped={}", explored, skipped);
                        std::process::exit(1);
                    }
                }
                if prop == "C13" && i % 8 == 7 {
                    let mut sh = shape_for(&prop, i);
                    sh.p_nest = 0;
                    sh.p_multi = 0;
                    let plan = generate(&mut rng, sh);
                    if well_formed(&plan) {
                        if let Ok(Some(why)) = catch_unwind(AssertUnwindSafe(|| asyncd::setup_run(&plan, i % 64 == 7))) {
                            let text = format!("# property=C13\n# found-by=bounded search of the real crate (build_async + setup; seed {}, case {})\n# failure: {}\n{}a Setup\n", seed, i, why.replace('\n', " "), plan.to_text());
                            std::fs::write(&out, text).expect("cannot write the replay file");
                            println!("FAIL {}", why.replace('\n', " "));
                            println!("explored={} skipped={}", explored, skipped);
                            std::process::exit(1);
                        }
                        explored += 1;
                    }
                    continue;
                }
                if prop == "C04" && i == 0 {
                    if let Ok(Some(why)) = catch_unwind(AssertUnwindSafe(parseq::thread_local_counts)) {
                        let text = format!("# property=C04\n# found-by=bounded search of the real crate (a par/seq tree as thread-local system)\n# failure: {}\nparseq-thread-local-counts\n", why.replace('\n', " "));
                        std::fs::write(&out, text).expect("cannot write the replay file");
                        println!("FAIL {}", why.replace('\n', " "));
                        println!("explored={} skipped={}", explored, skipped);
                        std::process::exit(1);
                    }
                }
                if prop == "C04" && i % 8 == 7 {
                    // the async dispatcher: k dispatches run every ordinary system k times, every wait() every thread-local system once
                    let c = asyncd::generate(&mut rng);
                    if let Ok(Some(why)) = catch_unwind(AssertUnwindSafe(|| asyncd::run_mode(&c, true))) {
                        let text = format!("# property=C04\n# found-by=bounded search of the real crate (async dispatcher call sequences; seed {}, case {})\n# failure: {}\n{}", seed, i, why.replace('\n', " "), c.to_text());
                        std::fs::write(&out, text).expect("cannot write the replay file");
                        println!("FAIL {}", why.replace('\n', " "));
                        println!("explored={} skipped={}", explored, skipped);
                        std::process::exit(1);
                    }
                    explored += 1;
                    continue;
                }
                if prop == "C12" && i % 8 == 7 {
                    // the async dispatcher runs its thread-local systems inside wait(), on the calling thread, once per wait
                    let c = asyncd::generate(&mut rng);
                    if let Ok(Some(why)) = catch_unwind(AssertUnwindSafe(|| asyncd::run(&c))) {
                        if why.contains("thread-local") {
                            let text = format!("# property=C12\n# found-by=bounded search of the real crate (async dispatcher call sequences; seed {}, case {})\n# failure: {}\n{}", seed, i, why.replace('\n', " "), c.to_text());
                            std::fs::write(&out, text).expect("cannot write the replay file");
                            println!("FAIL {}", why.replace('\n', " "));
                            println!("explored={} skipped={}", explored, skipped);
                            std::process::exit(1);
                        }
                    }
                    explored += 1;
                    continue;
                }
                let sh = shape_for(&prop, i);
                let case = generate(&mut rng, sh);
                mark(&out, &case.to_text());
                if !sh.ill_formed && !well_formed(&case) {
                    continue;
                }
                match guarded(&prop, &case, seed) {
                    Verdict::Holds => {
                        explored += 1;
                        // non-trivial: at least two registrations; distinct by the text of the case
                        if case.size() >= 2 {
                            use std::hash::{Hash, Hasher};
                            let mut h = std::collections::hash_map::DefaultHasher::new();
                            case.to_text().hash(&mut h);
                            if distinct.insert(h.finish()) && samples.len() < 2 && case.size() >= 4 && case.size() <= 8 {
                                samples.push(case.to_text());
                            }
                        }
                    }
                    Verdict::Skip(r) => {
                        skipped += 1;
                        if skip_reason.is_empty() {
                            skip_reason = r;
                        }
                    }
                    Verdict::Fails(_) => {
                        oracle::FORCE_ALL.store(true, std::sync::atomic::Ordering::SeqCst);
                        let ill = sh.ill_formed;
                        let small = if ill {
                            case.clone()
                        } else {
                            shrink(&case, &mut |c| matches!(guarded(&prop, c, seed), Verdict::Fails(_)))
                        };
                        let why = match guarded(&prop, &small, seed) {
                            Verdict::Fails(w) => w,
                            _ => "(failure not reproduced after shrinking)".into(),
                        };
                        let text = format!(
                            "# property={}\n# found-by=bounded search of the real crate (seed {}, case {}, {} cases explored before it)\n# failure: {}\n{}",
                            prop,
                            seed,
                            i,
                            explored,
                            why.replace('\n', " "),
                            small.to_text()
                        );
                        std::fs::write(&out, text).expect("cannot write the replay file");
                        println!("FAIL {}", why.replace('\n', " "));
                        println!("explored={} skipped={}", explored, skipped);
                        std::process::exit(1);
                    }
                }
            }
            println!("explored={} skipped={} distinct_nontrivial={} first-skip-reason={}", explored, skipped, distinct.len(), skip_reason.replace('\n', " "));
            for s in samples {
                println!("SAMPLE {}", s.trim_end().replace('\n', " | "));
            }
            std::process::exit(0);
        }
        "gen" => {
            let cases: usize = arg(&args, "--cases").and_then(|s| s.parse().ok()).unwrap_or(5);
            let seed: u64 = arg(&args, "--seed").and_then(|s| s.parse().ok()).unwrap_or(1);
            for i in 0..cases {
                let mut rng = Rng::new(seed.wrapping_mul(1_000_003).wrapping_add(i as u64));
                let case = generate(&mut rng, shape_for(&prop, i));
                println!("# case {}\n{}", i, case.to_text());
            }
        }
        "replay" => {
            oracle::FORCE_ALL.store(true, std::sync::atomic::Ordering::SeqCst);
            let file = arg(&args, "--file").expect("--file");
            let text = std::fs::read_to_string(&file).expect("cannot read the replay file");
            if prop == "C15" {
                match asyncd::ACase::from_text(&text) {
                    Ok(c) => match asyncd::run(&c) {
                        Some(w) => {
                            println!("FAIL {}", w);
                            std::process::exit(1);
                        }
                        None => {
                            println!("HOLDS");
                            std::process::exit(0);
                        }
                    },
                    Err(e) => {
                        println!("ERROR cannot parse {}: {}", file, e);
                        std::process::exit(2);
                    }
                }
            }
            if prop == "C16" && text.lines().any(|l| l.trim() == "macro-cases") {
                match parseq::macro_cases() {
                    Some(w) => {
                        println!("FAIL {}", w);
                        std::process::exit(1);
                    }
                    None => {
                        println!("HOLDS");
                        std::process::exit(0);
                    }
                }
            }
            if prop == "C04" && text.lines().any(|l| l.trim() == "parseq-thread-local-counts") {
                match parseq::thread_local_counts() {
                    Some(w) => {
                        println!("FAIL {}", w);
                        std::process::exit(1);
                    }
                    None => {
                        println!("HOLDS");
                        std::process::exit(0);
                    }
                }
            }
            if prop == "C13" && text.lines().any(|l| l.trim() == "parseq-thread-local") {
                match parseq::thread_local_setup() {
                    Some(w) => {
                        println!("FAIL {}", w);
                        std::process::exit(1);
                    }
                    None => {
                        println!("HOLDS");
                        std::process::exit(0);
                    }
                }
            }
            if prop == "C16" {
                match parseq::Tree::from_text(&text) {
                    Ok(t) => match parseq::run(&t) {
                        Some(w) => {
                            println!("FAIL {}", w);
                            std::process::exit(1);
                        }
                        None => {
                            println!("HOLDS");
                            std::process::exit(0);
                        }
                    },
                    Err(e) => {
                        println!("ERROR cannot parse {}: {}", file, e);
                        std::process::exit(2);
                    }
                }
            }
            if prop == "C06" {
                for l in text.lines().filter(|l| l.starts_with("sd ")) {
                    let name = l.split_whitespace().find_map(|t| t.strip_prefix("name=")).unwrap_or("");
                    let mask: u32 = l.split_whitespace().find_map(|t| t.strip_prefix("mask=")).and_then(|m| m.parse().ok()).unwrap_or(0);
                    if let Some(w) = sd::replay(name, mask) {
                        println!("FAIL {}", w);
                        std::process::exit(1);
                    }
                }
                println!("HOLDS");
                std::process::exit(0);
            }
            if prop == "C08" || prop == "C09" || prop == "C17" {
                match Hist::from_text(&text) {
                    Ok(c) => match c.run() {
                        Some((p, w)) if p == prop || (prop == "C17" && p == "C08") => {
                            println!("FAIL {}", w);
                            std::process::exit(1);
                        }
                        _ => {
                            println!("HOLDS");
                            std::process::exit(0);
                        }
                    },
                    Err(e) => {
                        println!("ERROR cannot parse {}: {}", file, e);
                        std::process::exit(2);
                    }
                }
            }
            if prop == "C13" && text.lines().any(|l| l.trim() == "a Setup") {
                let plan_text: String = text.lines().filter(|l| !l.trim_start().starts_with("a ")).map(|l| format!("{}\n", l)).collect();
                match Case::from_text(&plan_text).map(|c| asyncd::setup_run(&c, true)) {
                    Ok(Some(w)) => {
                        println!("FAIL {}", w);
                        std::process::exit(1);
                    }
                    _ => {
                        println!("HOLDS");
                        std::process::exit(0);
                    }
                }
            }
            if prop == "C04" && text.lines().any(|l| l.trim_start().starts_with("a ")) {
                match asyncd::ACase::from_text(&text).map(|c| asyncd::run_mode(&c, true)) {
                    Ok(Some(w)) => {
                        println!("FAIL {}", w);
                        std::process::exit(1);
                    }
                    _ => {
                        println!("HOLDS");
                        std::process::exit(0);
                    }
                }
            }
            if prop == "C12" && text.lines().any(|l| l.trim_start().starts_with("a ")) {
                match asyncd::ACase::from_text(&text).map(|c| asyncd::run(&c)) {
                    Ok(Some(w)) if w.contains("thread-local") => {
                        println!("FAIL {}", w);
                        std::process::exit(1);
                    }
                    _ => {
                        println!("HOLDS");
                        std::process::exit(0);
                    }
                }
            }
            let case = match Case::from_text(&text) {
                Ok(c) => c,
                Err(e) => {
                    println!("ERROR cannot parse {}: {}", file, e);
                    std::process::exit(2);
                }
            };
            let seed: u64 = arg(&args, "--seed").and_then(|s| s.parse().ok()).unwrap_or(1);
            match guarded(&prop, &case, seed) {
                Verdict::Fails(w) => {
                    println!("FAIL {}", w.replace('\n', " "));
                    std::process::exit(1);
                }
                Verdict::Holds => {
                    println!("HOLDS");
                    std::process::exit(0);
                }
                Verdict::Skip(r) => {
                    println!("SKIP {}", r);
                    std::process::exit(0);
                }
            }
        }
        _ => {
            eprintln!("usage: vx-replay search|replay --prop <id> ...");
            std::process::exit(2);
        }
    }
}
