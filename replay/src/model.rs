//! Registration sequences (the inputs the properties quantify over), their text form, and a seeded generator.

use std::fmt::Write as _;

pub type Res = (u8, u64); // (resource type index 0..4, dynamic id)

#[derive(Clone, Debug, PartialEq)]
pub struct SysSpec {
    pub name: String, // "" = unnamed
    pub reads: Vec<Res>,
    pub writes: Vec<Res>,
    pub deps: Vec<String>,
    pub rt: u8, // 1..=5
    pub zst: u8, // thread-local: 0 = a system with fields, 1..=3 = one of three zero-sized system types; ordinary system: 10 + k = the k-th
    // system of the typed family (real.rs: its data is one of shred's own SystemData types; reads / writes are then those of the family)
}

#[derive(Clone, Debug, PartialEq)]
pub struct BatchSpec {
    pub name: String,
    pub deps: Vec<String>,
    pub rt: u8,
    pub ctl: u8, // declared controller data: 0 (), 1 Read<R0>, 2 Write<R0>, 3 Write<R1>
    pub n: usize, // inner dispatches per controller run
    pub multi: bool, // registered through MultiDispatcher (plan() returns n)
    pub inner: Vec<Op>,
}

#[derive(Clone, Debug, PartialEq)]
pub enum Op {
    Sys(SysSpec),
    Tl(SysSpec),
    Barrier,
    Batch(BatchSpec),
    /// a whole dispatcher registered as one thread-local system of the outer one (driven through its RunNow impl)
    Nest(Vec<Op>),
}

#[derive(Clone, Debug, PartialEq)]
pub struct Case {
    pub ops: Vec<Op>,
}

// ---------------------------------------------------------------- text form

fn enc_name(s: &str) -> String {
    if s.is_empty() {
        "-".to_string()
    } else {
        s.replace(' ', "~")
    }
}
fn dec_name(s: &str) -> String {
    if s == "-" {
        String::new()
    } else {
        s.replace('~', " ")
    }
}
fn enc_res(v: &[Res]) -> String {
    if v.is_empty() {
        return "-".into();
    }
    v.iter().map(|(t, d)| format!("{}.{}", t, d)).collect::<Vec<_>>().join(",")
}
fn dec_res(s: &str) -> Result<Vec<Res>, String> {
    if s == "-" {
        return Ok(vec![]);
    }
    s.split(',')
        .map(|x| {
            let (a, b) = x.split_once('.').ok_or_else(|| format!("bad resource `{}`", x))?;
            Ok((a.parse::<u8>().map_err(|e| e.to_string())?, b.parse::<u64>().map_err(|e| e.to_string())?))
        })
        .collect()
}
fn enc_deps(v: &[String]) -> String {
    if v.is_empty() {
        return "-".into();
    }
    v.iter().map(|d| if d.is_empty() { "%".to_string() } else { enc_name(d) }).collect::<Vec<_>>().join(",")
}
fn dec_deps(s: &str) -> Vec<String> {
    if s == "-" {
        return vec![];
    }
    s.split(',').map(|d| if d == "%" { String::new() } else { dec_name(d) }).collect()
}

fn write_ops(out: &mut String, ops: &[Op], ind: usize) {
    let pad = "  ".repeat(ind);
    for op in ops {
        match op {
            Op::Barrier => {
                let _ = writeln!(out, "{}barrier", pad);
            }
            Op::Sys(s) | Op::Tl(s) => {
                let kw = if matches!(op, Op::Sys(_)) { "sys" } else { "tl" };
                let _ = writeln!(
                    out,
                    "{}{} name={} r={} w={} d={} t={} z={}",
                    pad,
                    kw,
                    enc_name(&s.name),
                    enc_res(&s.reads),
                    enc_res(&s.writes),
                    enc_deps(&s.deps),
                    s.rt,
                    s.zst
                );
            }
            Op::Batch(b) => {
                let _ = writeln!(
                    out,
                    "{}batch name={} d={} t={} ctl={} n={} m={} {{",
                    pad,
                    enc_name(&b.name),
                    enc_deps(&b.deps),
                    b.rt,
                    b.ctl,
                    b.n,
                    b.multi as u8
                );
                write_ops(out, &b.inner, ind + 1);
                let _ = writeln!(out, "{}}}", pad);
            }
            Op::Nest(inner) => {
                let _ = writeln!(out, "{}nest {{", pad);
                write_ops(out, inner, ind + 1);
                let _ = writeln!(out, "{}}}", pad);
            }
        }
    }
}

impl Case {
    pub fn to_text(&self) -> String {
        let mut s = String::new();
        write_ops(&mut s, &self.ops, 0);
        s
    }

    pub fn from_text(text: &str) -> Result<Case, String> {
        let lines: Vec<&str> = text
            .lines()
            .map(|l| l.trim())
            .filter(|l| !l.is_empty() && !l.starts_with('#'))
            .collect();
        let mut pos = 0;
        let ops = parse_ops(&lines, &mut pos, 0)?;
        if pos != lines.len() {
            return Err(format!("unexpected `{}`", lines[pos]));
        }
        Ok(Case { ops })
    }

    pub fn size(&self) -> usize {
        fn sz(ops: &[Op]) -> usize {
            ops.iter()
                .map(|o| match o {
                    Op::Batch(b) => 1 + sz(&b.inner),
                    Op::Nest(i) => 1 + sz(i),
                    _ => 1,
                })
                .sum()
        }
        sz(&self.ops)
    }
}

fn field<'a>(toks: &'a [&'a str], key: &str) -> Result<&'a str, String> {
    for t in toks {
        if let Some(v) = t.strip_prefix(key) {
            if let Some(v) = v.strip_prefix('=') {
                return Ok(v);
            }
        }
    }
    Err(format!("missing field {}", key))
}

fn parse_ops(lines: &[&str], pos: &mut usize, depth: usize) -> Result<Vec<Op>, String> {
    let mut ops = vec![];
    while *pos < lines.len() {
        let l = lines[*pos];
        if l == "}" {
            if depth == 0 {
                return Err("unbalanced }".into());
            }
            return Ok(ops);
        }
        let toks: Vec<&str> = l.split_whitespace().collect();
        *pos += 1;
        match toks[0] {
            "barrier" => ops.push(Op::Barrier),
            "sys" | "tl" => {
                let s = SysSpec {
                    name: dec_name(field(&toks, "name")?),
                    reads: dec_res(field(&toks, "r")?)?,
                    writes: dec_res(field(&toks, "w")?)?,
                    deps: dec_deps(field(&toks, "d")?),
                    rt: field(&toks, "t")?.parse().map_err(|_| "bad t")?,
                    zst: field(&toks, "z").ok().and_then(|z| z.parse().ok()).unwrap_or(0),
                };
                ops.push(if toks[0] == "sys" { Op::Sys(s) } else { Op::Tl(s) });
            }
            "batch" => {
                let inner = parse_ops(lines, pos, depth + 1)?;
                if *pos >= lines.len() || lines[*pos] != "}" {
                    return Err("missing }".into());
                }
                *pos += 1;
                ops.push(Op::Batch(BatchSpec {
                    name: dec_name(field(&toks, "name")?),
                    deps: dec_deps(field(&toks, "d")?),
                    rt: field(&toks, "t")?.parse().map_err(|_| "bad t")?,
                    ctl: field(&toks, "ctl")?.parse().map_err(|_| "bad ctl")?,
                    n: field(&toks, "n")?.parse().map_err(|_| "bad n")?,
                    multi: field(&toks, "m").map(|m| m == "1").unwrap_or(false),
                    inner,
                }));
            }
            "nest" => {
                let inner = parse_ops(lines, pos, depth + 1)?;
                if *pos >= lines.len() || lines[*pos] != "}" {
                    return Err("missing }".into());
                }
                *pos += 1;
                ops.push(Op::Nest(inner));
            }
            other => return Err(format!("unknown op `{}`", other)),
        }
    }
    if depth != 0 {
        return Err("missing }".into());
    }
    Ok(ops)
}

// ---------------------------------------------------------------- generator

pub struct Rng(pub u64);
impl Rng {
    pub fn new(seed: u64) -> Rng {
        Rng(seed.wrapping_mul(0x9E3779B97F4A7C15) ^ 0xD1B54A32D192ED03)
    }
    pub fn next(&mut self) -> u64 {
        let mut x = self.0;
        x ^= x >> 12;
        x ^= x << 25;
        x ^= x >> 27;
        self.0 = x;
        x.wrapping_mul(0x2545F4914F6CDD1D)
    }
    pub fn below(&mut self, n: usize) -> usize {
        if n == 0 {
            0
        } else {
            (self.next() >> 11) as usize % n
        }
    }
    pub fn chance(&mut self, pct: usize) -> bool {
        self.below(100) < pct
    }
}

/// knobs of one generated case; every field is part of the stated bound
#[derive(Clone, Copy, Debug)]
pub struct Shape {
    pub max_ops: usize,
    pub n_res: usize,      // size of the resource pool the case draws from (<= 12)
    pub p_named: usize,    // % of systems with a non-empty name
    pub p_dep: usize,      // % of systems with a dependency list
    pub p_barrier: usize,
    pub p_tl: usize,
    pub p_batch: usize,
    pub max_depth: usize,
    pub exotic_names: bool, // names with ' ', '-', '/'
    pub ill_formed: bool,   // C18 only: may name unknown dependencies / reuse names
    pub funnel: bool,       // everybody writes resource 0.0 (fills groups to capacity)
    pub ctl_data: bool,     // controllers may declare data
    pub tl_in_batch: bool,
    pub lanes: bool,   // every system writes exactly one resource of the pool (long conflict lanes)
    pub p_nest: usize, // % of top-level registrations that are a nested dispatcher used as thread-local system
    pub p_zst: usize,  // % of thread-local systems that are zero-sized types
    pub p_multi: usize, // % of batches registered through MultiDispatcher
    pub self_dep: bool, // C18 only: a system may name itself as dependency
    pub rt_skew: bool,  // running-time hints are VeryShort (75%) or VeryLong (25%) only
    pub p_typed: usize, // % of ordinary systems whose data is one of shred's own SystemData types over the static resources
}

impl Shape {
    pub fn base() -> Shape {
        Shape {
            max_ops: 9,
            n_res: 5,
            p_named: 75,
            p_dep: 35,
            p_barrier: 10,
            p_tl: 8,
            p_batch: 10,
            max_depth: 2,
            exotic_names: false,
            ill_formed: false,
            funnel: false,
            ctl_data: true,
            tl_in_batch: false,
            lanes: false,
            p_nest: 0,
            p_zst: 0,
            p_multi: 0,
            self_dep: false,
            rt_skew: false,
            p_typed: 0,
        }
    }
}

pub const RES_POOL: [Res; 12] = POOL;
/// the typed family (real.rs `typed!`): what the k-th member REALLY borrows (static resource types, dynamic id 0): (shared, exclusive)
pub const TYPED: [(&[u8], &[u8]); 8] = [(&[], &[0]), (&[1], &[2]), (&[1], &[3]), (&[0], &[1]), (&[2], &[3]), (&[0, 3], &[]), (&[], &[2]), (&[3], &[])];
pub fn typed_access(zst: u8) -> Option<(Vec<Res>, Vec<Res>)> {
    let k = (zst as usize).checked_sub(10)?;
    let t = TYPED.get(k)?;
    Some((t.0.iter().map(|x| (*x, 0)).collect(), t.1.iter().map(|x| (*x, 0)).collect()))
}
const POOL: [Res; 12] = [
    (0, 0), (1, 0), (2, 0), (3, 0), (0, 1), (1, 1), (2, 2), (3, 7), (0, 2), (1, 5), (2, 1), (3, 1),
];

struct Gen<'r> {
    rng: &'r mut Rng,
    sh: Shape,
    counter: usize,
    zst_used: u8,
    in_nest: bool,
    ph_used: u8,
}

impl Gen<'_> {
    fn pick_res(&mut self, max: usize) -> Vec<Res> {
        let k = self.rng.below(max + 1);
        let mut v = vec![];
        for _ in 0..k {
            v.push(POOL[self.rng.below(self.sh.n_res.min(POOL.len()))]);
        }
        v
    }

    fn fresh_name(&mut self) -> String {
        self.counter += 1;
        if self.rng.chance(5) {
            // a user may name a system like the printer's placeholder for unnamed ones (each such name once per case: fresh)
            let k = self.rng.below(8);
            if self.ph_used & (1 << k) == 0 {
                self.ph_used |= 1 << k;
                return format!("unnamed_{}", k);
            }
        }
        if self.sh.exotic_names {
            match self.rng.below(7) {
                5 => format!("größe{}", self.counter),
                6 => format!("物理/更新 {}", self.counter),
                0 => format!("sys {}", self.counter),
                1 => format!("sys-{}", self.counter),
                2 => format!("mod/sys{}", self.counter),
                3 => format!("a b-c/d {}", self.counter),
                _ => format!("s{}", self.counter),
            }
        } else {
            format!("s{}", self.counter)
        }
    }

    fn ops(&mut self, n: usize, depth: usize) -> Vec<Op> {
        let mut ops = vec![];
        let mut names: Vec<String> = vec![];
        for _ in 0..n {
            let roll = self.rng.below(100);
            if roll < self.sh.p_barrier {
                ops.push(Op::Barrier);
                continue;
            }
            if roll < self.sh.p_barrier + self.sh.p_tl && (depth == 0 || self.sh.tl_in_batch || self.in_nest) {
                let mut zst = 0;
                if depth == 0 && self.zst_used < 3 && self.rng.chance(self.sh.p_zst) {
                    self.zst_used += 1;
                    zst = self.zst_used;
                }
                let s = SysSpec { name: String::new(), reads: self.pick_res(2), writes: self.pick_res(2), deps: vec![], rt: 3, zst };
                ops.push(Op::Tl(s));
                continue;
            }
            if depth == 0 && self.rng.chance(self.sh.p_nest) {
                let k = 1 + self.rng.below(4);
                let saved = self.sh;
                self.sh.p_tl = 35;
                self.sh.p_batch = 0;
                self.in_nest = true;
                let inner = self.ops(k, 1);
                self.in_nest = false;
                self.sh = saved;
                ops.push(Op::Nest(inner));
                continue;
            }
            // name
            let mut name = if self.rng.chance(self.sh.p_named) { self.fresh_name() } else { String::new() };
            if self.sh.ill_formed && depth == 0 && !names.is_empty() && self.rng.chance(6) {
                name = names[self.rng.below(names.len())].clone();
            }
            // dependencies
            let mut deps = vec![];
            if !names.is_empty() && self.rng.chance(self.sh.p_dep) {
                let k = 1 + self.rng.below(3);
                for _ in 0..k {
                    deps.push(names[self.rng.below(names.len())].clone());
                }
            }
            if self.sh.ill_formed && depth == 0 && self.rng.chance(6) {
                deps.push(format!("ghost{}", self.rng.below(3)));
            }
            if self.sh.ill_formed && depth == 0 && self.rng.chance(4) {
                deps.push(String::new()); // the empty name is never a registered system
            }
            if self.sh.self_dep && depth == 0 && !name.is_empty() && self.rng.chance(8) {
                deps.push(name.clone());
            }
            let rt = if self.sh.rt_skew { if self.rng.chance(75) { 1 } else { 5 } } else { 1 + self.rng.below(5) as u8 };
            if roll < self.sh.p_barrier + self.sh.p_tl + self.sh.p_batch && depth < self.sh.max_depth {
                let k = self.rng.below(5);
                let inner = self.ops(k, depth + 1);
                let ctl = if self.sh.ctl_data { self.rng.below(4) as u8 } else { 0 };
                let multi = self.rng.chance(self.sh.p_multi);
                ops.push(Op::Batch(BatchSpec { name: name.clone(), deps, rt, ctl, n: self.rng.below(3), multi, inner }));
            } else {
                let mut reads = self.pick_res(3);
                let mut writes = self.pick_res(2);
                if self.sh.lanes {
                    reads.clear();
                    writes = vec![POOL[self.rng.below(self.sh.n_res.min(POOL.len()))]];
                }
                if self.sh.funnel {
                    writes.push((0, 0));
                    if self.rng.chance(50) {
                        reads.clear();
                    }
                }
                let mut zst = 0;
                if self.rng.chance(self.sh.p_typed) {
                    let k = self.rng.below(TYPED.len());
                    zst = 10 + k as u8;
                    reads = TYPED[k].0.iter().map(|t| (*t, 0)).collect();
                    writes = TYPED[k].1.iter().map(|t| (*t, 0)).collect();
                }
                ops.push(Op::Sys(SysSpec { name: name.clone(), reads, writes, deps, rt, zst }));
            }
            if !name.is_empty() && !names.contains(&name) {
                names.push(name);
            }
        }
        ops
    }
}

pub fn generate(rng: &mut Rng, sh: Shape) -> Case {
    let n = 1 + rng.below(sh.max_ops);
    let mut g = Gen { rng, sh, counter: 0, zst_used: 0, in_nest: false, ph_used: 0 };
    Case { ops: g.ops(n, 0) }
}

/// greedy shrinking: try dropping one op (at any depth) / one list element while `fails` keeps failing
pub fn shrink(case: &Case, fails: &mut dyn FnMut(&Case) -> bool) -> Case {
    let mut cur = case.clone();
    let mut budget = 400;
    loop {
        let mut progress = false;
        let cands = candidates(&cur);
        for c in cands {
            if budget == 0 {
                return cur;
            }
            budget -= 1;
            if c.size() <= cur.size() && c != cur && well_formed(&c) && fails(&c) {
                cur = c;
                progress = true;
                break;
            }
        }
        if !progress {
            return cur;
        }
    }
}

fn candidates(case: &Case) -> Vec<Case> {
    let mut out = vec![];
    fn rec(ops: &[Op], rebuild: &dyn Fn(Vec<Op>) -> Case, out: &mut Vec<Case>) {
        for i in 0..ops.len() {
            let mut v = ops.to_vec();
            v.remove(i);
            out.push(rebuild(v));
        }
        for i in 0..ops.len() {
            match &ops[i] {
                Op::Sys(s) | Op::Tl(s) => {
                    let is_sys = matches!(ops[i], Op::Sys(_));
                    let mk = |s2: SysSpec| if is_sys { Op::Sys(s2) } else { Op::Tl(s2) };
                    for k in 0..s.reads.len() {
                        let mut s2 = s.clone();
                        s2.reads.remove(k);
                        let mut v = ops.to_vec();
                        v[i] = mk(s2);
                        out.push(rebuild(v));
                    }
                    for k in 0..s.writes.len() {
                        let mut s2 = s.clone();
                        s2.writes.remove(k);
                        let mut v = ops.to_vec();
                        v[i] = mk(s2);
                        out.push(rebuild(v));
                    }
                    for k in 0..s.deps.len() {
                        let mut s2 = s.clone();
                        s2.deps.remove(k);
                        let mut v = ops.to_vec();
                        v[i] = mk(s2);
                        out.push(rebuild(v));
                    }
                }
                Op::Batch(b) => {
                    let ops2 = ops.to_vec();
                    let b2 = b.clone();
                    let rb = move |inner: Vec<Op>| {
                        let mut v = ops2.clone();
                        let mut bb = b2.clone();
                        bb.inner = inner;
                        v[i] = Op::Batch(bb);
                        rebuild(v)
                    };
                    rec(&b.inner, &rb, out);
                }
                Op::Nest(inner) => {
                    let ops2 = ops.to_vec();
                    let rb = move |inner: Vec<Op>| {
                        let mut v = ops2.clone();
                        v[i] = Op::Nest(inner);
                        rebuild(v)
                    };
                    rec(inner, &rb, out);
                }
                Op::Barrier => {}
            }
        }
    }
    rec(&case.ops, &|v| Case { ops: v }, &mut out);
    out
}

/// every dependency names an earlier system of the same builder, no non-empty name is reused
pub fn well_formed(case: &Case) -> bool {
    fn wf(ops: &[Op]) -> bool {
        let mut names: Vec<&str> = vec![];
        for op in ops {
            let (name, deps): (&str, &[String]) = match op {
                Op::Sys(s) => (&s.name, &s.deps),
                Op::Batch(b) => {
                    if !wf(&b.inner) {
                        return false;
                    }
                    (&b.name, &b.deps)
                }
                Op::Nest(i) => {
                    if !wf(i) {
                        return false;
                    }
                    continue;
                }
                _ => continue,
            };
            if deps.iter().any(|d| !names.contains(&d.as_str())) {
                return false;
            }
            if !name.is_empty() {
                if names.contains(&name) {
                    return false;
                }
                names.push(name);
            }
        }
        true
    }
    wf(&case.ops)
}
