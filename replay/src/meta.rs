//! C17 (and the meta-table part of C08): histories of register / insert / remove against a real `MetaTable<dyn Probe>`,
//! checked against "exactly the registered types, once each, in first-registration order, with the right vtable".

use std::panic::{catch_unwind, AssertUnwindSafe};

use shred::{CastFrom, MetaTable, Resource, World};

use crate::model::Rng;

pub trait Probe {
    fn ident(&self) -> u32;
    fn count(&self) -> u64;
    fn bump(&mut self);
    fn addr(&self) -> usize;
}

macro_rules! probe_ty {
    ($name:ident, $id:expr, $pad:expr) => {
        pub struct $name {
            pub pad: [u8; $pad],
            pub n: u64,
        }
        impl $name {
            pub fn new() -> Self {
                $name { pad: [0u8; $pad], n: 0 }
            }
        }
        impl Probe for $name {
            fn ident(&self) -> u32 {
                $id
            }
            fn count(&self) -> u64 {
                self.n
            }
            fn bump(&mut self) {
                self.n += 1;
            }
            fn addr(&self) -> usize {
                self as *const Self as usize
            }
        }
        unsafe impl CastFrom<$name> for dyn Probe {
            fn cast(t: *mut $name) -> *mut Self {
                t
            }
        }
    };
}
probe_ty!(M0, 0, 0);
probe_ty!(M1, 1, 16);
probe_ty!(M2, 2, 3);
probe_ty!(M3, 3, 64);
probe_ty!(M4, 4, 1);
probe_ty!(M5, 5, 24);
probe_ty!(M6, 6, 8);
probe_ty!(M7, 7, 0);
probe_ty!(M8, 8, 40);
probe_ty!(M9, 9, 2);
probe_ty!(M10, 10, 128);
probe_ty!(M11, 11, 5);
pub const NM: usize = 12;

/// a resource whose CastFrom impl returns a different address (the address of a field that is itself a valid Probe)
pub struct Bad {
    pub own: u64,
    pub inner: M0,
}
unsafe impl CastFrom<Bad> for dyn Probe {
    fn cast(t: *mut Bad) -> *mut Self {
        unsafe { std::ptr::addr_of_mut!((*t).inner) as *mut M0 as *mut dyn Probe }
    }
}

/// a zero-sized resource whose CastFrom impl returns the address of a static (also a different address)
pub struct BadZst;
pub static ELSEWHERE: ZstProbe = ZstProbe;
pub struct ZstProbe;
impl Probe for ZstProbe {
    fn ident(&self) -> u32 {
        99
    }
    fn count(&self) -> u64 {
        0
    }
    fn bump(&mut self) {}
    fn addr(&self) -> usize {
        self as *const Self as usize
    }
}
unsafe impl CastFrom<BadZst> for dyn Probe {
    fn cast(_: *mut BadZst) -> *mut Self {
        &ELSEWHERE as *const ZstProbe as *mut ZstProbe as *mut dyn Probe
    }
}

#[derive(Clone, Debug, PartialEq)]
pub enum MOp {
    Register(u8),
    Insert(u8),
    Remove(u8),
    Check,
    HoldExclusive(u8),
    HoldShared(u8),
    HoldItem,
    BadCast,
}

#[derive(Clone, Debug, PartialEq)]
pub struct MCase {
    pub ops: Vec<MOp>,
}

impl MCase {
    pub fn to_text(&self) -> String {
        self.ops
            .iter()
            .map(|o| match o {
                MOp::Register(i) => format!("m register i={}\n", i),
                MOp::Insert(i) => format!("m insert i={}\n", i),
                MOp::Remove(i) => format!("m remove i={}\n", i),
                MOp::Check => "m check\n".to_string(),
                MOp::HoldExclusive(i) => format!("m hold_exclusive i={}\n", i),
                MOp::HoldShared(i) => format!("m hold_shared i={}\n", i),
                MOp::HoldItem => "m hold_item\n".to_string(),
                MOp::BadCast => "m bad_cast\n".to_string(),
            })
            .collect()
    }
    pub fn from_text(text: &str) -> Result<MCase, String> {
        let mut ops = vec![];
        for l in text.lines().map(|l| l.trim()).filter(|l| !l.is_empty() && !l.starts_with('#')) {
            let toks: Vec<&str> = l.split_whitespace().collect();
            if toks[0] != "m" || toks.len() < 2 {
                return Err(format!("not a meta-table history line: {}", l));
            }
            let i = toks.get(2).and_then(|t| t.strip_prefix("i=")).and_then(|v| v.parse::<u8>().ok());
            ops.push(match (toks[1], i) {
                ("register", Some(i)) => MOp::Register(i),
                ("insert", Some(i)) => MOp::Insert(i),
                ("remove", Some(i)) => MOp::Remove(i),
                ("check", _) => MOp::Check,
                ("hold_exclusive", Some(i)) => MOp::HoldExclusive(i),
                ("hold_shared", Some(i)) => MOp::HoldShared(i),
                ("hold_item", _) => MOp::HoldItem,
                ("bad_cast", _) => MOp::BadCast,
                _ => return Err(format!("bad line: {}", l)),
            });
        }
        Ok(MCase { ops })
    }
}

pub fn generate(rng: &mut Rng) -> MCase {
    // a third of the histories draw from all twelve types and are long enough to register most of them (tables that outgrow
    // whatever small-table representation an implementation may use)
    let wide = rng.chance(33);
    let n = if wide { 12 + rng.below(24) } else { 3 + rng.below(12) };
    let mut ops = vec![];
    for _ in 0..n {
        let i = rng.below(if wide { NM } else { 6 }) as u8;
        ops.push(match rng.below(14) {
            0 | 1 | 2 | 3 => MOp::Register(i),
            4 | 5 | 6 => MOp::Insert(i),
            7 => MOp::Remove(i),
            8 | 9 => MOp::Check,
            10 => MOp::HoldExclusive(i),
            11 => MOp::HoldShared(i),
            12 => MOp::HoldItem,
            _ => MOp::BadCast,
        });
    }
    ops.push(MOp::Check);
    MCase { ops }
}

macro_rules! by_m {
    ($i:expr, $T:ident => $e:expr) => {
        match $i % 12 {
            0 => { type $T = M0; $e }
            1 => { type $T = M1; $e }
            2 => { type $T = M2; $e }
            3 => { type $T = M3; $e }
            4 => { type $T = M4; $e }
            5 => { type $T = M5; $e }
            6 => { type $T = M6; $e }
            7 => { type $T = M7; $e }
            8 => { type $T = M8; $e }
            9 => { type $T = M9; $e }
            10 => { type $T = M10; $e }
            _ => { type $T = M11; $e }
        }
    };
}

fn quiet<R>(f: impl FnOnce() -> R) -> Result<R, String> {
    catch_unwind(AssertUnwindSafe(f)).map_err(crate::real::panic_msg)
}

pub fn run(case: &MCase) -> Option<(&'static str, String)> {
    let mut table: MetaTable<dyn Probe> = MetaTable::new();
    let mut world = World::empty();
    let mut order: Vec<u8> = vec![]; // first-registration order
    let mut present = [false; NM];
    let mut counts = [0u64; NM];
    for (k, op) in case.ops.iter().enumerate() {
        let what = format!("operation {} ({:?})", k, op);
        let expected: Vec<u8> = order.iter().copied().filter(|i| present[*i as usize]).collect();
        match op {
            MOp::Register(i) => {
                by_m!(*i, T => table.register::<T>());
                if !order.contains(i) {
                    order.push(*i);
                }
            }
            MOp::Insert(i) => {
                by_m!(*i, T => world.insert(T::new()));
                present[*i as usize] = true;
                counts[*i as usize] = 0;
            }
            MOp::Remove(i) => {
                by_m!(*i, T => { world.remove::<T>(); });
                present[*i as usize] = false;
            }
            MOp::Check => {
                // get / get_mut on every present resource
                for i in 0..NM as u8 {
                    if !present[i as usize] {
                        continue;
                    }
                    let registered = order.contains(&i);
                    let r = by_m!(i, T => quiet(|| {
                        let g = world.fetch::<T>();
                        let real = &*g as *const T as usize;
                        table.get(&*g as &dyn Resource).map(|p| (p.ident(), p.addr(), real))
                    }));
                    match r {
                        Err(m) => return Some(("C17", format!("{}: get on the resource of type {} panicked: {}", what, i, m))),
                        Ok(None) if registered => return Some(("C17", format!("{}: get returns None for type {} although it was registered", what, i))),
                        Ok(Some(_)) if !registered => return Some(("C17", format!("{}: get converts type {} although it was never registered", what, i))),
                        Ok(Some((id, a, real))) => {
                            if id != i as u32 || a != real {
                                return Some(("C17", format!("{}: get on type {} yields an object that says it is type {} at address {:#x} (resource is at {:#x})", what, i, id, a, real)));
                            }
                        }
                        Ok(None) => {}
                    }
                    let r = by_m!(i, T => quiet(|| {
                        let mut g = world.fetch_mut::<T>();
                        table.get_mut(&mut *g as &mut dyn Resource).map(|p| { p.bump(); p.ident() })
                    }));
                    match r {
                        Err(m) => return Some(("C17", format!("{}: get_mut on type {} panicked: {}", what, i, m))),
                        Ok(x) => {
                            if x.is_some() != registered || x.map(|id| id != i as u32).unwrap_or(false) {
                                return Some(("C17", format!("{}: get_mut on type {} gives {:?}, registered = {}", what, i, x, registered)));
                            }
                            if registered {
                                counts[i as usize] += 1;
                            }
                        }
                    }
                }
                // iter: registered and present, first-registration order, once each, right object
                let r = quiet(|| table.iter(&world).map(|p| (p.ident() as u8, p.count())).collect::<Vec<_>>());
                match r {
                    Err(m) => return Some(("C17", format!("{}: iter panicked although nothing is borrowed: {}", what, m))),
                    Ok(v) => {
                        let ids: Vec<u8> = v.iter().map(|x| x.0).collect();
                        if ids != expected {
                            return Some(("C17", format!("{}: iter yields types {:?}; registered (in order) {:?}, present {:?}, so {:?} is expected", what, ids, order, present, expected)));
                        }
                        for (id, c) in v {
                            if c != counts[id as usize] {
                                return Some(("C17", format!("{}: iter yields for type {} an object with count {}, the resource has {}", what, id, c, counts[id as usize])));
                            }
                        }
                    }
                }
                let r = quiet(|| table.iter_mut(&world).map(|mut p| { p.bump(); p.ident() as u8 }).collect::<Vec<_>>());
                match r {
                    Err(m) => return Some(("C17", format!("{}: iter_mut panicked although nothing is borrowed: {}", what, m))),
                    Ok(ids) => {
                        if ids != expected {
                            return Some(("C17", format!("{}: iter_mut yields types {:?}, expected {:?}", what, ids, expected)));
                        }
                        for i in &expected {
                            counts[*i as usize] += 1;
                        }
                    }
                }
                for i in 0..NM as u8 {
                    if present[i as usize] {
                        let c = by_m!(i, T => world.fetch::<T>().n);
                        if c != counts[i as usize] {
                            return Some(("C17", format!("{}: resource of type {} was bumped {} times through the table, {} expected (the trait object must denote that very resource)", what, i, c, counts[i as usize])));
                        }
                    }
                }
            }
            MOp::HoldExclusive(i) => {
                if !present[*i as usize] {
                    continue;
                }
                let listed = expected.contains(i);
                let (r1, r2) = by_m!(*i, T => {
                    let _g = world.fetch_mut::<T>();
                    (quiet(|| table.iter(&world).count()), quiet(|| table.iter_mut(&world).count()))
                });
                for (name, r) in [("iter", r1), ("iter_mut", r2)] {
                    if listed && r.is_ok() {
                        return Some(("C08", format!("{}: {} walked over type {} while an exclusive guard of it was alive (must panic, not alias)", what, name, i)));
                    }
                    if !listed && r.is_err() {
                        return Some(("C17", format!("{}: {} panicked although type {} is not among the types it yields: {}", what, name, i, r.unwrap_err())));
                    }
                }
            }
            MOp::HoldShared(i) => {
                if !present[*i as usize] {
                    continue;
                }
                let listed = expected.contains(i);
                let (r1, r2) = by_m!(*i, T => {
                    let _g = world.fetch::<T>();
                    (quiet(|| table.iter(&world).count()), quiet(|| table.iter_mut(&world).count()))
                });
                if let Err(m) = r1 {
                    return Some(("C08", format!("{}: iter (shared borrows) panicked while only a shared guard of type {} was alive: {}", what, i, m)));
                }
                if listed && r2.is_ok() {
                    return Some(("C08", format!("{}: iter_mut walked over type {} while a shared guard of it was alive (must panic, not alias)", what, i)));
                }
                if !listed && r2.is_err() {
                    return Some(("C17", format!("{}: iter_mut panicked although type {} is not among the types it yields", what, i)));
                }
            }
            MOp::HoldItem => {
                // an item yielded by iter is a shared borrow of its resource, one yielded by iter_mut an exclusive one
                if let Some(&i) = expected.first() {
                    let r = by_m!(i, T => {
                        let mut it = table.iter(&world);
                        let item = it.next();
                        let shared_ok = quiet(|| world.try_fetch::<T>().is_some());
                        let excl = quiet(|| world.try_fetch_mut::<T>().is_some());
                        drop(item);
                        (shared_ok, excl)
                    });
                    if r.0.is_err() {
                        return Some(("C08", format!("{}: while holding the first item of iter (type {}), a shared fetch of it panicked", what, i)));
                    }
                    if r.1.is_ok() {
                        return Some(("C08", format!("{}: while holding the first item of iter (type {}), an exclusive fetch of it succeeded", what, i)));
                    }
                    let r = by_m!(i, T => {
                        let mut it = table.iter_mut(&world);
                        let item = it.next();
                        let shared = quiet(|| world.try_fetch::<T>().is_some());
                        drop(item);
                        let after = quiet(|| world.try_fetch_mut::<T>().is_some());
                        (shared, after)
                    });
                    if r.0.is_ok() {
                        return Some(("C08", format!("{}: while holding the first item of iter_mut (type {}), a shared fetch of it succeeded", what, i)));
                    }
                    if r.1.is_err() {
                        return Some(("C08", format!("{}: after dropping the item of iter_mut (type {}), the resource is still borrowed", what, i)));
                    }
                }
            }
            MOp::BadCast => {
                let mut t2: MetaTable<dyn Probe> = MetaTable::new();
                t2.register::<Bad>();
                let mut w2 = World::empty();
                w2.insert(Bad { own: 7, inner: M0::new() });
                let r = quiet(|| {
                    let g = w2.fetch::<Bad>();
                    t2.get(&*g as &dyn Resource).map(|p| p.addr())
                });
                if r.is_ok() {
                    return Some(("C17", format!("{}: a CastFrom impl that changes the address was accepted by get (must be rejected by a panic)", what)));
                }
                let r = quiet(|| t2.iter(&w2).count());
                if r.is_ok() {
                    return Some(("C17", format!("{}: a CastFrom impl that changes the address was accepted by iter (must be rejected by a panic)", what)));
                }
                // the same for a zero-sized resource type
                let mut t3: MetaTable<dyn Probe> = MetaTable::new();
                t3.register::<BadZst>();
                let mut w3 = World::empty();
                w3.insert(BadZst);
                let r = quiet(|| {
                    let g = w3.fetch::<BadZst>();
                    t3.get(&*g as &dyn Resource).map(|p| p.ident())
                });
                if r.is_ok() {
                    return Some(("C17", format!("{}: a CastFrom impl of a zero-sized type that changes the address was accepted by get (must be rejected by a panic)", what)));
                }
                let r = quiet(|| t3.iter(&w3).count());
                if r.is_ok() {
                    return Some(("C17", format!("{}: a CastFrom impl of a zero-sized type that changes the address was accepted by iter (must be rejected by a panic)", what)));
                }
            }
        }
    }
    None
}
