//! C16: random Par/Seq trees built through the real `Par::new/with`, `Seq::new/with`, dispatched by a real `ParSeq`.

use std::{
    collections::BTreeSet,
    panic::{catch_unwind, AssertUnwindSafe},
    sync::Arc,
};

use shred::{Par, ParSeq, ResourceId, RunWithPool, Seq, World};

use crate::{
    model::{Res, Rng},
    real::{pool, rid, Ctx, EvK, LogSys, LogSysD, Zst0, Zst1, Zst2, ZCTX, ZUID},
};

#[derive(Clone, Debug, PartialEq)]
pub enum Tree {
    Leaf(Vec<Res>, Vec<Res>),
    Par(Vec<Tree>),
    Seq(Vec<Tree>),
}

impl Tree {
    pub fn to_text(&self) -> String {
        fn res(v: &[Res]) -> String {
            if v.is_empty() {
                "-".into()
            } else {
                v.iter().map(|(t, d)| format!("{}.{}", t, d)).collect::<Vec<_>>().join(",")
            }
        }
        fn rec(t: &Tree, ind: usize, out: &mut String) {
            let pad = "  ".repeat(ind);
            match t {
                Tree::Leaf(r, w) => out.push_str(&format!("{}t leaf r={} w={}\n", pad, res(r), res(w))),
                Tree::Par(c) | Tree::Seq(c) => {
                    out.push_str(&format!("{}t {} {{\n", pad, if matches!(t, Tree::Par(_)) { "par" } else { "seq" }));
                    for x in c {
                        rec(x, ind + 1, out);
                    }
                    out.push_str(&format!("{}}}\n", pad));
                }
            }
        }
        let mut s = String::new();
        rec(self, 0, &mut s);
        s
    }

    pub fn from_text(text: &str) -> Result<Tree, String> {
        let lines: Vec<&str> = text.lines().map(|l| l.trim()).filter(|l| !l.is_empty() && !l.starts_with('#')).collect();
        fn res(s: &str) -> Vec<Res> {
            if s == "-" {
                return vec![];
            }
            s.split(',').filter_map(|x| x.split_once('.')).filter_map(|(a, b)| Some((a.parse().ok()?, b.parse().ok()?))).collect()
        }
        fn rec(lines: &[&str], pos: &mut usize) -> Result<Tree, String> {
            let l = lines.get(*pos).ok_or("unexpected end")?;
            let toks: Vec<&str> = l.split_whitespace().collect();
            *pos += 1;
            match toks.get(1).copied() {
                Some("leaf") => {
                    let r = toks.iter().find_map(|t| t.strip_prefix("r=")).unwrap_or("-");
                    let w = toks.iter().find_map(|t| t.strip_prefix("w=")).unwrap_or("-");
                    Ok(Tree::Leaf(res(r), res(w)))
                }
                Some(k @ ("par" | "seq")) => {
                    let mut c = vec![];
                    while lines.get(*pos).copied() != Some("}") {
                        c.push(rec(lines, pos)?);
                    }
                    *pos += 1;
                    Ok(if k == "par" { Tree::Par(c) } else { Tree::Seq(c) })
                }
                _ => Err(format!("bad tree line: {}", l)),
            }
        }
        let mut pos = 0;
        rec(&lines, &mut pos)
    }
}

const POOL: [Res; 6] = [(0, 0), (1, 0), (2, 0), (3, 0), (0, 1), (1, 2)];

pub fn generate(rng: &mut Rng) -> Tree {
    fn rec(rng: &mut Rng, depth: usize) -> Tree {
        if depth >= 4 || rng.chance(35 + 12 * depth) {
            let pick = |rng: &mut Rng, n: usize| (0..rng.below(n + 1)).map(|_| POOL[rng.below(POOL.len())]).collect::<Vec<_>>();
            let r = pick(rng, 2);
            let w = pick(rng, 1);
            return Tree::Leaf(r, w);
        }
        let n = 1 + rng.below(4);
        let c = (0..n).map(|_| rec(rng, depth + 1)).collect();
        if rng.chance(50) {
            Tree::Par(c)
        } else {
            Tree::Seq(c)
        }
    }
    let n = 1 + rng.below(4);
    let c = (0..n).map(|_| rec(rng, 1)).collect();
    if rng.chance(50) { Tree::Par(c) } else { Tree::Seq(c) }
}

/// type-erased node so that trees of run-time shape can be nested into the real (statically typed) Par / Seq
pub struct Dyn(Box<dyn for<'a> RunWithPool<'a> + Send>, u8); // .1: 0 = ordinary node, 1..=3 = a bare zero-sized leaf Zst0..Zst2
impl<'a> RunWithPool<'a> for Dyn {
    fn setup(&mut self, world: &mut World) {
        self.0.setup(world)
    }
    fn run(&mut self, world: &'a World, pool: &rayon::ThreadPool) {
        self.0.run(world, pool)
    }
    fn reads(&self, reads: &mut Vec<ResourceId>) {
        self.0.reads(reads)
    }
    fn writes(&self, writes: &mut Vec<ResourceId>) {
        self.0.writes(writes)
    }
}

/// what was really built: the leaves (uids) below every node that made it into the tree
#[derive(Clone, Debug)]
pub enum Built {
    Leaf(usize),
    Par(Vec<Built>),
    Seq(Vec<Built>),
}
fn leaves(b: &Built, out: &mut Vec<usize>) {
    match b {
        Built::Leaf(u) => out.push(*u),
        Built::Par(c) | Built::Seq(c) => c.iter().for_each(|x| leaves(x, out)),
    }
}

type Acc = (BTreeSet<Res>, BTreeSet<Res>);
fn conflicts(a: &Acc, b: &Acc) -> bool {
    a.1.iter().any(|x| b.0.contains(x) || b.1.contains(x)) || a.0.iter().any(|x| b.1.contains(x))
}

struct B<'c> {
    ctx: &'c Arc<Ctx>,
    next: usize,
    leaf_acc: Vec<Acc>,
    fail: Option<String>,
    aborted: bool,
    zst_used: usize,
}

impl B<'_> {
    fn build(&mut self, t: &Tree) -> (Dyn, Built, Acc) {
        match t {
            Tree::Leaf(r, w) => {
                let uid = self.next;
                self.next += 1;
                let acc: Acc = (r.iter().copied().collect(), w.iter().copied().collect());
                self.leaf_acc.push(acc.clone());
                // the first three access-free leaves are zero-sized system types (their identity lives in statics)
                if r.is_empty() && w.is_empty() && self.zst_used < 3 {
                    *ZCTX.lock().unwrap() = Some(self.ctx.clone());
                    ZUID[self.zst_used].store(uid, std::sync::atomic::Ordering::SeqCst);
                    self.zst_used += 1;
                    let d = match self.zst_used {
                        1 => Dyn(Box::new(Zst0), 1),
                        2 => Dyn(Box::new(Zst1), 2),
                        _ => Dyn(Box::new(Zst2), 3),
                    };
                    return (d, Built::Leaf(uid), acc);
                }
                if uid % 2 == 1 {
                    // a leaf whose accessor TYPE has an (empty) default while the system declares per-instance ids
                    let s = LogSysD::new(uid, r.iter().map(|x| rid(*x)).collect(), w.iter().map(|x| rid(*x)).collect(), self.ctx.clone());
                    return (Dyn(Box::new(s), 0), Built::Leaf(uid), acc);
                }
                let s = LogSys::new(uid, r.iter().map(|x| rid(*x)).collect(), w.iter().map(|x| rid(*x)).collect(), 3, self.ctx.clone());
                (Dyn(Box::new(s), 0), Built::Leaf(uid), acc)
            }
            Tree::Seq(c) => {
                let (mut node, b0, mut acc) = self.build(&c[0]);
                let mut kids = vec![b0];
                for x in &c[1..] {
                    let (n, b, a) = self.build(x);
                    // a zero-sized leaf is handed over as its own type (not boxed), as `seq![a, Unit]` would
                    node = match n.1 {
                        1 => Dyn(Box::new(Seq::new(node).with(Zst0)), 0),
                        2 => Dyn(Box::new(Seq::new(node).with(Zst1)), 0),
                        3 => Dyn(Box::new(Seq::new(node).with(Zst2)), 0),
                        _ => Dyn(Box::new(Seq::new(node).with(n)), 0),
                    };
                    kids.push(b);
                    acc.0.extend(a.0);
                    acc.1.extend(a.1);
                }
                (node, Built::Seq(kids), acc)
            }
            Tree::Par(c) => {
                let (mut node, b0, mut acc) = self.build(&c[0]);
                let mut kids = vec![b0];
                for x in &c[1..] {
                    let (n, b, a) = self.build(x);
                    let want_panic = conflicts(&acc, &a);
                    // the head is moved into `with`; a rejected child is dropped with it, so rebuild is not possible: stop at a panic
                    let r: Result<Dyn, _> = catch_unwind(AssertUnwindSafe(move || match n.1 {
                        1 => Dyn(Box::new(Par::new(node).with(Zst0)), 0),
                        2 => Dyn(Box::new(Par::new(node).with(Zst1)), 0),
                        3 => Dyn(Box::new(Par::new(node).with(Zst2)), 0),
                        _ => Dyn(Box::new(Par::new(node).with(n)), 0),
                    }));
                    match r {
                        Ok(p) => {
                            if want_panic && self.fail.is_none() {
                                self.fail = Some(format!(
                                    "Par::with accepted a child whose access (reads {:?}, writes {:?}) conflicts with the children already there (reads {:?}, writes {:?}); debug assertions are on",
                                    a.0, a.1, acc.0, acc.1
                                ));
                            }
                            node = p;
                            kids.push(b);
                            acc.0.extend(a.0);
                            acc.1.extend(a.1);
                        }
                        Err(p) => {
                            if !want_panic && self.fail.is_none() {
                                self.fail = Some(format!(
                                    "Par::with panicked ({}) although the child (reads {:?}, writes {:?}) does not conflict with the children already there (reads {:?}, writes {:?})",
                                    crate::real::panic_msg(p), a.0, a.1, acc.0, acc.1
                                ));
                            }
                            // the head was consumed by the rejected call: the rest of this tree cannot be built; the rejection itself was the check
                            self.aborted = true;
                            let uid = self.next;
                            self.next += 1;
                            self.leaf_acc.push((BTreeSet::new(), BTreeSet::new()));
                            let s = LogSys::new(uid, vec![], vec![], 3, self.ctx.clone());
                            return (Dyn(Box::new(s), 0), Built::Leaf(uid), (BTreeSet::new(), BTreeSet::new()));
                        }
                    }
                }
                (node, Built::Par(kids), acc)
            }
        }
    }
}

fn seq_order_ok(b: &Built, order: &dyn Fn(usize) -> (usize, usize)) -> Option<(usize, usize)> {
    match b {
        Built::Leaf(_) => None,
        Built::Par(c) => c.iter().find_map(|x| seq_order_ok(x, order)),
        Built::Seq(c) => {
            for i in 0..c.len() {
                for j in i + 1..c.len() {
                    let (mut a, mut z) = (vec![], vec![]);
                    leaves(&c[i], &mut a);
                    leaves(&c[j], &mut z);
                    for &x in &a {
                        for &y in &z {
                            if order(x).1 > order(y).0 {
                                return Some((x, y));
                            }
                        }
                    }
                }
            }
            c.iter().find_map(|x| seq_order_ok(x, order))
        }
    }
}

pub fn run(tree: &Tree) -> Option<String> {
    let ctx = Ctx::new();
    let mut b = B { ctx: &ctx, next: 0, leaf_acc: vec![], fail: None, aborted: false, zst_used: 0 };
    let (root, built, acc) = b.build(tree);
    if let Some(f) = b.fail {
        return Some(f);
    }
    if b.aborted {
        return None;
    }
    let n_leaves = b.next;
    // the node reports the union of its leaves' access
    let (mut r, mut w) = (vec![], vec![]);
    root.reads(&mut r);
    root.writes(&mut w);
    let as_set = |v: &Vec<ResourceId>| v.iter().cloned().collect::<BTreeSet<_>>();
    let want_r: BTreeSet<ResourceId> = acc.0.iter().map(|x| rid(*x)).collect();
    let want_w: BTreeSet<ResourceId> = acc.1.iter().map(|x| rid(*x)).collect();
    if as_set(&r) != want_r {
        return Some(format!("the root reports {} distinct reads, the union of its leaves' reads has {} ({:?} vs {:?})", as_set(&r).len(), want_r.len(), r, acc.0));
    }
    if as_set(&w) != want_w {
        return Some(format!("the root reports {} distinct writes, the union of its leaves' writes has {} ({:?} vs {:?})", as_set(&w).len(), want_w.len(), w, acc.1));
    }
    let mut ps = ParSeq::new(root, pool());
    let mut world = World::empty();
    ps.setup(&mut world);
    let evs = ctx.take();
    for u in 0..n_leaves {
        let k = evs.iter().filter(|e| e.uid == u && e.k == EvK::Setup).count();
        if k != 1 {
            return Some(format!("setup reached leaf #{} {} times, expected exactly once", u, k));
        }
    }
    for round in 0..3 {
        if round == 2 {
            // from inside the pool
            let p = pool();
            p.install(|| ps.dispatch(&world));
        } else {
            ps.dispatch(&world);
        }
        let evs = ctx.take();
        let mut span = vec![(usize::MAX, 0usize); n_leaves];
        for u in 0..n_leaves {
            let enters: Vec<usize> = evs.iter().enumerate().filter(|(_, e)| e.uid == u && e.k == EvK::Enter).map(|(i, _)| i).collect();
            let exits: Vec<usize> = evs.iter().enumerate().filter(|(_, e)| e.uid == u && e.k == EvK::Exit).map(|(i, _)| i).collect();
            if enters.len() != 1 || exits.len() != 1 {
                return Some(format!("dispatch {} ran leaf #{} {} times, expected exactly once", round, u, enters.len()));
            }
            span[u] = (enters[0], exits[0]);
        }
        if let Some((x, y)) = seq_order_ok(&built, &|u| span[u]) {
            return Some(format!("dispatch {}: leaf #{} belongs to an earlier child of a seq node than leaf #{}, but had not finished when #{} started", round, x, y, y));
        }
    }
    None
}

/// trees written with the crate's own `par!` / `seq!` macros (fixed shapes): what the macros build must behave like the
/// nodes they name
pub fn macro_cases() -> Option<String> {
    use shred::{par, seq};
    let ctx = Ctx::new();
    let (a, b): (Res, Res) = ((0, 1), (1, 1));
    let leaf = |uid: usize, r: &[Res], w: &[Res]| LogSys::new(uid, r.iter().map(|x| rid(*x)).collect(), w.iter().map(|x| rid(*x)).collect(), 3, ctx.clone());
    let refused = |f: &mut dyn FnMut()| catch_unwind(AssertUnwindSafe(f)).is_err();
    if !refused(&mut || {
        let _ = par![leaf(0, &[], &[a]), leaf(1, &[], &[a]),];
    }) {
        return Some("par![X, Y,] accepted two children that both write the same resource (debug assertions are on: adding a child to a par node panics when its access conflicts)".into());
    }
    if !refused(&mut || {
        let _ = par![leaf(0, &[a], &[]), leaf(1, &[b], &[]), leaf(2, &[], &[a]),];
    }) {
        return Some("par![X, Y, Z,] accepted a third child writing what the first child reads (debug assertions are on)".into());
    }
    if !refused(&mut || {
        let _ = par![leaf(0, &[], &[b]), seq![leaf(1, &[a], &[]), leaf(2, &[b], &[]),],];
    }) {
        return Some("par![X, seq![Y, Z,],] accepted a seq child one of whose leaves reads what X writes (debug assertions are on)".into());
    }
    if refused(&mut || {
        let _ = par![leaf(0, &[a], &[]), leaf(1, &[a], &[b]),];
    }) {
        return Some("par![X, Y,] panicked although the children only share a resource both read".into());
    }
    if refused(&mut || {
        let _ = seq![leaf(0, &[], &[a]), leaf(1, &[], &[a]), leaf(2, &[a], &[]),];
    }) {
        return Some("seq![X, Y, Z,] panicked: children of a seq node may conflict".into());
    }
    let tree = seq![leaf(0, &[], &[a]), par![leaf(1, &[a], &[]), leaf(2, &[a], &[]),], leaf(3, &[], &[a, b]),];
    let (mut r, mut w) = (vec![], vec![]);
    tree.reads(&mut r);
    tree.writes(&mut w);
    let set = |v: &Vec<ResourceId>| v.iter().cloned().collect::<BTreeSet<_>>();
    if set(&r) != [rid(a)].into_iter().collect() || set(&w) != [rid(a), rid(b)].into_iter().collect() {
        return Some(format!("seq![W, par![R, R,], W,] reports reads {:?} / writes {:?}, not the union of its leaves'", r, w));
    }
    let mut ps = ParSeq::new(tree, pool());
    let mut world = World::empty();
    ps.setup(&mut world);
    let evs = ctx.take();
    for u in 0..4 {
        let k = evs.iter().filter(|e| e.uid == u && e.k == EvK::Setup).count();
        if k != 1 {
            return Some(format!("macro-built tree: setup reached leaf #{} {} times, expected exactly once", u, k));
        }
    }
    for round in 0..2 {
        ps.dispatch(&world);
        let evs = ctx.take();
        let pos = |u: usize, k: EvK| evs.iter().position(|e| e.uid == u && e.k == k);
        for u in 0..4 {
            if evs.iter().filter(|e| e.uid == u && e.k == EvK::Enter).count() != 1 {
                return Some(format!("macro-built tree, dispatch {}: leaf #{} did not run exactly once", round, u));
            }
        }
        let before = |x: usize, y: usize| pos(x, EvK::Exit) < pos(y, EvK::Enter);
        if !(before(0, 1) && before(0, 2) && before(1, 3) && before(2, 3)) {
            return Some(format!("macro-built tree seq![0, par![1, 2,], 3,], dispatch {}: a leaf of a later child of the seq node started before an earlier child had finished", round));
        }
    }
    None
}

/// C13: a par/seq tree registered as a thread-local system of a dispatcher is a registered system: Dispatcher::setup reaches
/// the setup hook of every leaf exactly once
pub fn thread_local_setup() -> Option<String> {
    use shred::{par, seq};
    let ctx = Ctx::new();
    let leaf = |uid: usize| LogSys::new(uid, vec![], vec![], 3, ctx.clone());
    let tree = seq![leaf(0), par![leaf(1), leaf(2),], leaf(3),];
    let mut b = crate::real::Builder::new();
    b.add_pool(pool());
    b.add(leaf(4), "s", &[]);
    b.add_thread_local(ParSeq::new(tree, pool()));
    let mut d = b.build();
    let mut world = World::empty();
    d.setup(&mut world);
    let evs = ctx.take();
    for u in 0..5 {
        let k = evs.iter().filter(|e| e.uid == u && e.k == EvK::Setup).count();
        if k != 1 {
            return Some(format!(
                "Dispatcher::setup called the setup hook of system #{} {} times, expected exactly once ({})",
                u,
                k,
                if u < 4 { "a leaf of a par/seq tree registered as a thread-local system" } else { "an ordinary system" }
            ));
        }
    }
    None
}

/// C04: a par/seq tree registered as a thread-local system: every dispatch of the dispatcher runs every leaf exactly once,
/// stateless (zero-sized) leaves included
pub fn thread_local_counts() -> Option<String> {
    use shred::{par, seq};
    let ctx = Ctx::new();
    *ZCTX.lock().unwrap() = Some(ctx.clone());
    for (k, uid) in [1usize, 2, 3].iter().enumerate() {
        ZUID[k].store(*uid, std::sync::atomic::Ordering::SeqCst);
    }
    let leaf = |uid: usize| LogSys::new(uid, vec![], vec![], 3, ctx.clone());
    let tree = par![leaf(0), Zst0, seq![Zst1, Zst2,], leaf(4),];
    let mut b = crate::real::Builder::new();
    b.add_pool(pool());
    b.add(leaf(5), "s", &[]);
    b.add_thread_local(ParSeq::new(tree, pool()));
    let mut d = b.build();
    let mut world = World::empty();
    d.setup(&mut world);
    ctx.take();
    let k = 3;
    for _ in 0..k {
        d.dispatch(&world);
    }
    let evs = ctx.take();
    for u in 0..6 {
        let n = evs.iter().filter(|e| e.uid == u && e.k == EvK::Enter).count();
        if n != k {
            return Some(format!(
                "{} dispatches ran system #{} {} times ({}); the dispatcher has one ordinary system and the tree par![#0, #1, seq![#2, #3,], #4,] as a thread-local system",
                k,
                u,
                n,
                if (1..=3).contains(&u) { "a stateless, zero-sized leaf of the tree" } else if u < 5 { "a leaf of the tree" } else { "the ordinary system" }
            ));
        }
    }
    None
}
