//! C08 / C09: model-based histories on the real `World` (typed map + borrow discipline), single-threaded.
//! The model is the map the property describes: (type, dynamic id) -> value, plus per-resource borrow state.

use std::{
    collections::HashMap,
    panic::{catch_unwind, AssertUnwindSafe},
    sync::{
        atomic::{AtomicUsize, Ordering},
        Arc,
    },
};

use shred::{Fetch, FetchMut, Read, ResourceId, World, Write};

use crate::model::Rng;

macro_rules! res_ty {
    ($name:ident, $pad:expr) => {
        pub struct $name {
            pub v: u64,
            pub pad: [u8; $pad],
            pub drops: Arc<AtomicUsize>,
        }
        impl $name {
            pub fn new(v: u64, drops: Arc<AtomicUsize>) -> Self {
                $name { v, pad: [0u8; $pad], drops }
            }
        }
        impl Drop for $name {
            fn drop(&mut self) {
                self.drops.fetch_add(1, Ordering::SeqCst);
            }
        }
    };
}
res_ty!(TA, 0);
res_ty!(TB, 40);
res_ty!(TC, 3);

#[derive(Clone, Debug, PartialEq)]
pub enum BOp {
    Fetch(u8, u64),
    FetchMut(u8, u64),
    FetchWrongType(u8, u8, u64), // type argument, type of the id, dynamic id
    FetchMutWrongType(u8, u8, u64),
    Drop(usize),
    Clone(usize),
    Write(usize, u64), // through an exclusive guard
    SysDataOptRead(u8),  // world.system_data::<Option<Read<T>>>() while the guards are alive
    SysDataOptWrite(u8), // world.system_data::<Option<Write<T>>>()
    Has(u8, u64),        // a presence query while the guards are alive (it borrows nothing)
    FetchInDrop(u8, bool), // a typed try_fetch (false) / try_fetch_mut (true) issued by a destructor while a panic unwinds
}

#[derive(Clone, Debug, PartialEq)]
pub enum WOp {
    Insert(u8, u64, u64),
    InsertWrongType(u8, u8, u64, u64),
    Remove(u8, u64),
    RemoveWrongType(u8, u8, u64),
    Has(u8, u64),
    Entry(u8, u64),
    GetMut(u8, u64, u64),
    Borrows(Vec<BOp>),
}

#[derive(Clone, Debug, PartialEq)]
pub struct WCase {
    pub ops: Vec<WOp>,
}

impl WCase {
    pub fn to_text(&self) -> String {
        let mut s = String::new();
        for op in &self.ops {
            match op {
                WOp::Insert(t, d, v) => s += &format!("w insert t={} d={} v={}\n", t, d, v),
                WOp::InsertWrongType(t, t2, d, v) => s += &format!("w insert_wrong t={} idt={} d={} v={}\n", t, t2, d, v),
                WOp::Remove(t, d) => s += &format!("w remove t={} d={}\n", t, d),
                WOp::RemoveWrongType(t, t2, d) => s += &format!("w remove_wrong t={} idt={} d={}\n", t, t2, d),
                WOp::Has(t, d) => s += &format!("w has t={} d={}\n", t, d),
                WOp::Entry(t, v) => s += &format!("w entry t={} v={}\n", t, v),
                WOp::GetMut(t, d, v) => s += &format!("w get_mut t={} d={} v={}\n", t, d, v),
                WOp::Borrows(b) => {
                    s += "w borrows {\n";
                    for o in b {
                        match o {
                            BOp::Fetch(t, d) => s += &format!("  fetch t={} d={}\n", t, d),
                            BOp::FetchMut(t, d) => s += &format!("  fetch_mut t={} d={}\n", t, d),
                            BOp::FetchWrongType(t, t2, d) => s += &format!("  fetch_wrong t={} idt={} d={}\n", t, t2, d),
                            BOp::FetchMutWrongType(t, t2, d) => s += &format!("  fetch_mut_wrong t={} idt={} d={}\n", t, t2, d),
                            BOp::Drop(k) => s += &format!("  drop k={}\n", k),
                            BOp::Clone(k) => s += &format!("  clone k={}\n", k),
                            BOp::Write(k, v) => s += &format!("  write k={} v={}\n", k, v),
                            BOp::SysDataOptRead(t) => s += &format!("  sysdata_opt_read t={}\n", t),
                            BOp::SysDataOptWrite(t) => s += &format!("  sysdata_opt_write t={}\n", t),
                            BOp::Has(t, d) => s += &format!("  has t={} d={}\n", t, d),
                            BOp::FetchInDrop(t, m) => s += &format!("  fetch_in_drop t={} m={}\n", t, *m as u8),
                        }
                    }
                    s += "}\n";
                }
            }
        }
        s
    }

    pub fn from_text(text: &str) -> Result<WCase, String> {
        fn f(toks: &[&str], key: &str) -> Result<u64, String> {
            for t in toks {
                if let Some(v) = t.strip_prefix(key).and_then(|v| v.strip_prefix('=')) {
                    return v.parse::<u64>().map_err(|e| e.to_string());
                }
            }
            Err(format!("missing {}", key))
        }
        let mut ops = vec![];
        let mut cur: Option<Vec<BOp>> = None;
        for l in text.lines().map(|l| l.trim()).filter(|l| !l.is_empty() && !l.starts_with('#')) {
            let toks: Vec<&str> = l.split_whitespace().collect();
            if let Some(b) = cur.as_mut() {
                match toks[0] {
                    "}" => ops.push(WOp::Borrows(cur.take().unwrap())),
                    "fetch" => b.push(BOp::Fetch(f(&toks, "t")? as u8, f(&toks, "d")?)),
                    "fetch_mut" => b.push(BOp::FetchMut(f(&toks, "t")? as u8, f(&toks, "d")?)),
                    "fetch_wrong" => b.push(BOp::FetchWrongType(f(&toks, "t")? as u8, f(&toks, "idt")? as u8, f(&toks, "d")?)),
                    "fetch_mut_wrong" => b.push(BOp::FetchMutWrongType(f(&toks, "t")? as u8, f(&toks, "idt")? as u8, f(&toks, "d")?)),
                    "drop" => b.push(BOp::Drop(f(&toks, "k")? as usize)),
                    "clone" => b.push(BOp::Clone(f(&toks, "k")? as usize)),
                    "write" => b.push(BOp::Write(f(&toks, "k")? as usize, f(&toks, "v")?)),
                    "sysdata_opt_read" => b.push(BOp::SysDataOptRead(f(&toks, "t")? as u8)),
                    "sysdata_opt_write" => b.push(BOp::SysDataOptWrite(f(&toks, "t")? as u8)),
                    "has" => b.push(BOp::Has(f(&toks, "t")? as u8, f(&toks, "d")?)),
                    "fetch_in_drop" => b.push(BOp::FetchInDrop(f(&toks, "t")? as u8, f(&toks, "m")? != 0)),
                    o => return Err(format!("unknown borrow op {}", o)),
                }
                continue;
            }
            if toks[0] != "w" || toks.len() < 2 {
                return Err(format!("not a world history line: {}", l));
            }
            match toks[1] {
                "insert" => ops.push(WOp::Insert(f(&toks, "t")? as u8, f(&toks, "d")?, f(&toks, "v")?)),
                "insert_wrong" => ops.push(WOp::InsertWrongType(f(&toks, "t")? as u8, f(&toks, "idt")? as u8, f(&toks, "d")?, f(&toks, "v")?)),
                "remove" => ops.push(WOp::Remove(f(&toks, "t")? as u8, f(&toks, "d")?)),
                "remove_wrong" => ops.push(WOp::RemoveWrongType(f(&toks, "t")? as u8, f(&toks, "idt")? as u8, f(&toks, "d")?)),
                "has" => ops.push(WOp::Has(f(&toks, "t")? as u8, f(&toks, "d")?)),
                "entry" => ops.push(WOp::Entry(f(&toks, "t")? as u8, f(&toks, "v")?)),
                "get_mut" => ops.push(WOp::GetMut(f(&toks, "t")? as u8, f(&toks, "d")?, f(&toks, "v")?)),
                "borrows" => cur = Some(vec![]),
                o => return Err(format!("unknown world op {}", o)),
            }
        }
        Ok(WCase { ops })
    }
}

pub fn generate(rng: &mut Rng) -> WCase {
    let n = 2 + rng.below(10);
    let mut ops = vec![];
    let mut val = 100;
    for _ in 0..n {
        let t = rng.below(3) as u8;
        let d = [0u64, 0, 1, 7][rng.below(4)];
        val += 1;
        let t2 = (t + 1 + rng.below(2) as u8) % 3;
        match rng.below(12) {
            0 | 1 | 2 => ops.push(WOp::Insert(t, d, val)),
            3 => ops.push(WOp::InsertWrongType(t, t2, d, val)),
            4 => ops.push(WOp::Remove(t, d)),
            5 => ops.push(if rng.chance(50) { WOp::RemoveWrongType(t, t2, d) } else { WOp::Has(t, d) }),
            6 => ops.push(WOp::Entry(t, val)),
            7 => ops.push(WOp::GetMut(t, d, val)),
            _ => {
                let k = 1 + rng.below(7);
                let mut b = vec![];
                for _ in 0..k {
                    let t = rng.below(3) as u8;
                    let d = [0u64, 0, 1, 7][rng.below(4)];
                    let t2 = (t + 1) % 3;
                    val += 1;
                    b.push(match rng.below(14) {
                        13 => BOp::FetchInDrop(t, rng.chance(50)),
                        12 => BOp::Has(t, d),
                        10 => BOp::SysDataOptRead(t),
                        11 => BOp::SysDataOptWrite(t),
                        0 | 1 | 2 => BOp::Fetch(t, d),
                        3 | 4 => BOp::FetchMut(t, d),
                        5 => if rng.chance(50) { BOp::FetchWrongType(t, t2, d) } else { BOp::FetchMutWrongType(t, t2, d) },
                        6 | 7 => BOp::Drop(rng.below(4)),
                        8 => BOp::Clone(rng.below(4)),
                        _ => BOp::Write(rng.below(4), val),
                    });
                }
                ops.push(WOp::Borrows(b));
            }
        }
    }
    WCase { ops }
}

/// a typed fetch issued from a destructor while a panic is unwinding the stack (the guard, if any, is dropped at once)
fn fetch_in_drop<T: shred::Resource>(w: &World, mutable: bool) -> Result<bool, String> {
    struct Asker<'w, T: shred::Resource> {
        w: &'w World,
        mutable: bool,
        out: &'w std::cell::RefCell<Option<Result<bool, String>>>,
        _t: std::marker::PhantomData<T>,
    }
    impl<T: shred::Resource> Drop for Asker<'_, T> {
        fn drop(&mut self) {
            let (w, m) = (self.w, self.mutable);
            let r = quiet(|| if m { w.try_fetch_mut::<T>().is_some() } else { w.try_fetch::<T>().is_some() });
            *self.out.borrow_mut() = Some(r);
        }
    }
    let out = std::cell::RefCell::new(None);
    let _ = catch_unwind(AssertUnwindSafe(|| {
        let _asker = Asker::<T> { w, mutable, out: &out, _t: std::marker::PhantomData };
        panic!("unwinding past a destructor that asks the world");
    }));
    let r = out.borrow_mut().take();
    r.unwrap_or_else(|| Err("the destructor did not run".into()))
}

fn rid(t: u8, d: u64) -> ResourceId {
    match t % 3 {
        0 => ResourceId::new_with_dynamic_id::<TA>(d),
        1 => ResourceId::new_with_dynamic_id::<TB>(d),
        _ => ResourceId::new_with_dynamic_id::<TC>(d),
    }
}

enum Guard<'a> {
    SA(Fetch<'a, TA>),
    SB(Fetch<'a, TB>),
    SC(Fetch<'a, TC>),
    XA(FetchMut<'a, TA>),
    XB(FetchMut<'a, TB>),
    XC(FetchMut<'a, TC>),
}
impl Guard<'_> {
    fn value(&self) -> u64 {
        match self {
            Guard::SA(g) => g.v,
            Guard::SB(g) => g.v,
            Guard::SC(g) => g.v,
            Guard::XA(g) => g.v,
            Guard::XB(g) => g.v,
            Guard::XC(g) => g.v,
        }
    }
    fn exclusive(&self) -> bool {
        matches!(self, Guard::XA(_) | Guard::XB(_) | Guard::XC(_))
    }
}

macro_rules! by_type {
    ($t:expr, $T:ident => $e:expr) => {
        match $t % 3 {
            0 => {
                type $T = TA;
                $e
            }
            1 => {
                type $T = TB;
                $e
            }
            _ => {
                type $T = TC;
                $e
            }
        }
    };
}

fn quiet<R>(f: impl FnOnce() -> R) -> Result<R, String> {
    catch_unwind(AssertUnwindSafe(f)).map_err(crate::real::panic_msg)
}

/// returns (property, description) of the first disagreement between the real World and the model
pub fn run(case: &WCase) -> Option<(&'static str, String)> {
    let drops = Arc::new(AtomicUsize::new(0));
    let mut created = 0usize;
    let mut model: HashMap<(u8, u64), u64> = HashMap::new();
    let mut world = World::empty();
    macro_rules! mk {
        ($T:ident, $v:expr) => {{
            created += 1;
            $T::new($v, drops.clone())
        }};
    }
    let agree = |world: &World, model: &HashMap<(u8, u64), u64>, after: &str| -> Option<(&'static str, String)> {
        for t in 0..3u8 {
            for d in [0u64, 1, 7] {
                let has = world.has_value_raw(rid(t, d));
                if has != model.contains_key(&(t, d)) {
                    return Some(("C09", format!("after {}: has_value_raw(type {}, dyn {}) = {} but the map {} that slot", after, t, d, has, if has { "does not hold" } else { "holds" })));
                }
                if has {
                    let got = quiet(|| by_type!(t, T => world.try_fetch_by_id::<T>(rid(t, d)).map(|g| g.v)));
                    match got {
                        Ok(Some(v)) if v == model[&(t, d)] => {}
                        Ok(x) => return Some(("C09", format!("after {}: slot (type {}, dyn {}) reads {:?}, the map holds {}", after, t, d, x, model[&(t, d)]))),
                        Err(m) => return Some(("C08", format!("after {}: slot (type {}, dyn {}) cannot be fetched although no guard is alive: {}", after, t, d, m))),
                    }
                }
            }
        }
        None
    };
    for (i, op) in case.ops.iter().enumerate() {
        let what = format!("operation {} ({:?})", i, op);
        match op {
            WOp::Insert(t, d, v) => {
                let r = by_type!(*t, T => { let x = mk!(T, *v); quiet(|| if *d == 0 { world.insert::<T>(x) } else { world.insert_by_id::<T>(rid(*t, *d), x) }) });
                if let Err(m) = r {
                    return Some(("C09", format!("{} panicked: {}", what, m)));
                }
                model.insert((*t, *d), *v);
            }
            WOp::InsertWrongType(t, t2, d, v) => {
                let r = by_type!(*t, T => { let x = mk!(T, *v); quiet(|| world.insert_by_id::<T>(rid(*t2, *d), x)) });
                if r.is_ok() {
                    return Some(("C09", format!("{}: insert_by_id with a type argument that disagrees with the id returned instead of panicking", what)));
                }
            }
            WOp::Remove(t, d) => {
                let r = by_type!(*t, T => quiet(|| if *d == 0 { world.remove::<T>().map(|x| x.v) } else { world.remove_by_id::<T>(rid(*t, *d)).map(|x| x.v) }));
                let want = model.remove(&(*t, *d));
                match r {
                    Ok(got) if got == want => {}
                    Ok(got) => return Some(("C09", format!("{} returned {:?}, the map held {:?}", what, got, want))),
                    Err(m) => return Some(("C09", format!("{} panicked: {}", what, m))),
                }
            }
            WOp::RemoveWrongType(t, t2, d) => {
                let r = by_type!(*t, T => quiet(|| world.remove_by_id::<T>(rid(*t2, *d)).map(|x| x.v)));
                if r.is_ok() {
                    return Some(("C09", format!("{}: remove_by_id with a type argument that disagrees with the id returned instead of panicking", what)));
                }
            }
            WOp::Has(t, d) => {
                let got = by_type!(*t, T => if *d == 0 { world.has_value::<T>() } else { world.has_value_raw(rid(*t, *d)) });
                if got != model.contains_key(&(*t, *d)) {
                    return Some(("C09", format!("{} = {}, the map says {}", what, got, !got)));
                }
            }
            WOp::Entry(t, v) => {
                let r = by_type!(*t, T => { let x = mk!(T, *v); quiet(|| world.entry::<T>().or_insert(x).v) });
                let want = *model.entry((*t, 0)).or_insert(*v);
                match r {
                    Ok(got) if got == want => {}
                    Ok(got) => return Some(("C09", format!("{}: entry().or_insert yields {}, the map holds {} (entry-or-insert must never overwrite)", what, got, want))),
                    Err(m) => return Some(("C09", format!("{} panicked: {}", what, m))),
                }
            }
            WOp::GetMut(t, d, v) => {
                let r = by_type!(*t, T => quiet(|| if *d == 0 {
                    world.get_mut::<T>().map(|x| { x.v = *v; })
                } else {
                    world.get_mut_raw(rid(*t, *d)).map(|r| {
                        if std::any::Any::type_id(&*r) != std::any::TypeId::of::<T>() {
                            panic!("get_mut_raw returned an object that is not the stored value (its type id is not the id's type)");
                        }
                    })
                }));
                let present = model.contains_key(&(*t, *d));
                match r {
                    Ok(got) if got.is_some() == present => {
                        if present && *d == 0 {
                            model.insert((*t, *d), *v);
                        }
                    }
                    Ok(got) => return Some(("C09", format!("{} returned {}, the map says present = {}", what, if got.is_some() { "Some" } else { "None" }, present))),
                    Err(m) => return Some(("C09", format!("{} panicked: {}", what, m))),
                }
            }
            WOp::Borrows(bops) => {
                // shared count / exclusive flag per slot, kept next to the guards themselves
                let w = &world;
                let mut guards: Vec<(u8, u64, Guard)> = vec![];
                for (j, b) in bops.iter().enumerate() {
                    let bwhat = format!("{} step {} ({:?})", what, j, b);
                    let shared = |g: &Vec<(u8, u64, Guard)>, t: u8, d: u64| g.iter().filter(|x| x.0 == t && x.1 == d && !x.2.exclusive()).count();
                    let excl = |g: &Vec<(u8, u64, Guard)>, t: u8, d: u64| g.iter().any(|x| x.0 == t && x.1 == d && x.2.exclusive());
                    match b {
                        BOp::Fetch(t, d) => {
                            let present = model.contains_key(&(*t, *d));
                            let must_panic = present && excl(&guards, *t, *d);
                            let r: Result<Option<Guard>, String> = match t % 3 {
                                0 => quiet(|| if *d == 0 { w.try_fetch::<TA>() } else { w.try_fetch_by_id::<TA>(rid(*t, *d)) }).map(|o| o.map(Guard::SA)),
                                1 => quiet(|| if *d == 0 { w.try_fetch::<TB>() } else { w.try_fetch_by_id::<TB>(rid(*t, *d)) }).map(|o| o.map(Guard::SB)),
                                _ => quiet(|| if *d == 0 { w.try_fetch::<TC>() } else { w.try_fetch_by_id::<TC>(rid(*t, *d)) }).map(|o| o.map(Guard::SC)),
                            };
                            match r {
                                Err(m) => {
                                    if !must_panic {
                                        return Some(("C08", format!("{} panicked although the slot is {}: {}", bwhat, if present { "not exclusively borrowed" } else { "absent" }, m)));
                                    }
                                }
                                Ok(None) => {
                                    if present {
                                        return Some(("C08", format!("{} returned None although the resource is present (None is for absent resources only)", bwhat)));
                                    }
                                }
                                Ok(Some(g)) => {
                                    if must_panic {
                                        return Some(("C08", format!("{} returned a shared guard while an exclusive guard of the same resource is alive", bwhat)));
                                    }
                                    if !present {
                                        return Some(("C09", format!("{} returned a guard for a slot the map does not hold", bwhat)));
                                    }
                                    if g.value() != model[&(*t, *d)] {
                                        return Some(("C09", format!("{} reads {}, the map holds {}", bwhat, g.value(), model[&(*t, *d)])));
                                    }
                                    guards.push((*t, *d, g));
                                }
                            }
                        }
                        BOp::FetchMut(t, d) => {
                            let present = model.contains_key(&(*t, *d));
                            let must_panic = present && (excl(&guards, *t, *d) || shared(&guards, *t, *d) > 0);
                            let r: Result<Option<Guard>, String> = match t % 3 {
                                0 => quiet(|| if *d == 0 { w.try_fetch_mut::<TA>() } else { w.try_fetch_mut_by_id::<TA>(rid(*t, *d)) }).map(|o| o.map(Guard::XA)),
                                1 => quiet(|| if *d == 0 { w.try_fetch_mut::<TB>() } else { w.try_fetch_mut_by_id::<TB>(rid(*t, *d)) }).map(|o| o.map(Guard::XB)),
                                _ => quiet(|| if *d == 0 { w.try_fetch_mut::<TC>() } else { w.try_fetch_mut_by_id::<TC>(rid(*t, *d)) }).map(|o| o.map(Guard::XC)),
                            };
                            match r {
                                Err(m) => {
                                    if !must_panic {
                                        return Some(("C08", format!("{} panicked although the slot is {}: {}", bwhat, if present { "unborrowed" } else { "absent" }, m)));
                                    }
                                }
                                Ok(None) => {
                                    if present {
                                        return Some(("C08", format!("{} returned None although the resource is present (None is for absent resources only)", bwhat)));
                                    }
                                }
                                Ok(Some(g)) => {
                                    if must_panic {
                                        return Some(("C08", format!("{} returned an exclusive guard while another guard of the same resource is alive (aliasing)", bwhat)));
                                    }
                                    if !present {
                                        return Some(("C09", format!("{} returned a guard for a slot the map does not hold", bwhat)));
                                    }
                                    if g.value() != model[&(*t, *d)] {
                                        return Some(("C09", format!("{} reads {}, the map holds {}", bwhat, g.value(), model[&(*t, *d)])));
                                    }
                                    guards.push((*t, *d, g));
                                }
                            }
                        }
                        BOp::FetchWrongType(t, t2, d) => {
                            let ok = by_type!(*t, T => quiet(|| w.try_fetch_by_id::<T>(rid(*t2, *d)).is_some())).is_ok();
                            if ok {
                                return Some(("C09", format!("{}: try_fetch_by_id with a type argument that disagrees with the id returned instead of panicking", bwhat)));
                            }
                        }
                        BOp::FetchMutWrongType(t, t2, d) => {
                            let ok = by_type!(*t, T => quiet(|| w.try_fetch_mut_by_id::<T>(rid(*t2, *d)).is_some())).is_ok();
                            if ok {
                                return Some(("C09", format!("{}: try_fetch_mut_by_id with a type argument that disagrees with the id returned instead of panicking", bwhat)));
                            }
                        }
                        BOp::SysDataOptRead(t) | BOp::SysDataOptWrite(t) => {
                            // the Option forms of system data: None only when the resource is absent; a conflicting borrow panics
                            let is_write = matches!(b, BOp::SysDataOptWrite(_));
                            let present = model.contains_key(&(*t, 0));
                            let must_panic = present && (excl(&guards, *t, 0) || (is_write && shared(&guards, *t, 0) > 0));
                            let r: Result<bool, String> = by_type!(*t, T => if is_write {
                                quiet(|| w.system_data::<Option<Write<T, shred::PanicHandler>>>().is_some())
                            } else {
                                quiet(|| w.system_data::<Option<Read<T, shred::PanicHandler>>>().is_some())
                            });
                            match r {
                                Err(m) => {
                                    if !must_panic {
                                        return Some(("C08", format!("{} panicked although the resource is {}: {}", bwhat, if present { "not borrowed in a conflicting way" } else { "absent" }, m)));
                                    }
                                }
                                Ok(some) => {
                                    if must_panic {
                                        return Some(("C08", format!("{} returned {} while a conflicting guard of the resource is alive (must panic; None is for absent resources only)", bwhat, if some { "a guard" } else { "None" })));
                                    }
                                    if some != present {
                                        return Some(("C08", format!("{} returned {}, the resource is {}", bwhat, if some { "Some" } else { "None" }, if present { "present" } else { "absent" })));
                                    }
                                }
                            }
                        }
                        BOp::FetchInDrop(t, mutable) => {
                            // the rule does not depend on who asks: a destructor running while a panic unwinds gets the same answer
                            let present = model.contains_key(&(*t, 0));
                            let must_panic = present && (excl(&guards, *t, 0) || (*mutable && shared(&guards, *t, 0) > 0));
                            let r: Result<bool, String> = by_type!(*t, T => fetch_in_drop::<T>(w, *mutable));
                            match r {
                                Err(m) => {
                                    if !must_panic {
                                        return Some(("C08", format!("{} (from a destructor during unwinding) panicked although the resource is {}: {}", bwhat, if present { "not borrowed in a conflicting way" } else { "absent" }, m)));
                                    }
                                }
                                Ok(some) => {
                                    if must_panic {
                                        return Some(("C08", format!("{} (from a destructor during unwinding) returned {} while a conflicting guard of the resource is alive (must panic; None is for absent resources only)", bwhat, if some { "a guard" } else { "None" })));
                                    }
                                    if some != present {
                                        return Some(("C08", format!("{} (from a destructor during unwinding) returned {}, the resource is {}", bwhat, if some { "Some" } else { "None" }, if present { "present" } else { "absent" })));
                                    }
                                }
                            }
                        }
                        BOp::Has(t, d) => {
                            // presence queries agree with the map whatever is borrowed: they borrow nothing themselves
                            let r: Result<bool, String> = by_type!(*t, T => quiet(|| if *d == 0 { w.has_value::<T>() } else { w.has_value_raw(rid(*t, *d)) }));
                            match r {
                                Ok(got) if got == model.contains_key(&(*t, *d)) => {}
                                Ok(got) => return Some(("C09", format!("{}: the presence query says {}, the map says {}", bwhat, got, !got))),
                                Err(m) => return Some(("C09", format!("{}: the presence query panicked while guards are alive (it must agree with the map): {}", bwhat, m))),
                            }
                        }
                        BOp::Drop(k) => {
                            if *k < guards.len() {
                                guards.remove(*k);
                            }
                        }
                        BOp::Clone(k) => {
                            if *k < guards.len() {
                                let c = match &guards[*k].2 {
                                    Guard::SA(g) => Some(Guard::SA(g.clone())),
                                    Guard::SB(g) => Some(Guard::SB(g.clone())),
                                    Guard::SC(g) => Some(Guard::SC(g.clone())),
                                    _ => None,
                                };
                                if let Some(c) = c {
                                    let (t, d) = (guards[*k].0, guards[*k].1);
                                    guards.push((t, d, c));
                                }
                            }
                        }
                        BOp::Write(k, v) => {
                            if *k < guards.len() {
                                let (t, d) = (guards[*k].0, guards[*k].1);
                                let wrote = match &mut guards[*k].2 {
                                    Guard::XA(g) => { g.v = *v; true }
                                    Guard::XB(g) => { g.v = *v; true }
                                    Guard::XC(g) => { g.v = *v; true }
                                    _ => false,
                                };
                                if wrote {
                                    model.insert((t, d), *v);
                                }
                            }
                        }
                    }
                    // existing guards stay usable and see the map's values (also right after a refused fetch)
                    for (t, d, g) in &guards {
                        if g.value() != model[&(*t, *d)] {
                            return Some(("C08", format!("after {}: a live guard of (type {}, dyn {}) reads {}, the map holds {}", bwhat, t, d, g.value(), model[&(*t, *d)])));
                        }
                    }
                }
                drop(guards);
                // dropping the guards released exactly their borrows: everything can be borrowed exclusively again
                for (&(t, d), _) in model.iter() {
                    let ok = by_type!(t, T => quiet(|| w.try_fetch_mut_by_id::<T>(rid(t, d)).is_some()));
                    match ok {
                        Ok(true) => {}
                        Ok(false) => return Some(("C09", format!("after {}: slot (type {}, dyn {}) vanished", what, t, d))),
                        Err(m) => return Some(("C08", format!("after {} all guards were dropped, yet (type {}, dyn {}) is still borrowed: {}", what, t, d, m))),
                    }
                }
            }
        }
        if let Some(x) = agree(&world, &model, &what) {
            return Some(x);
        }
    }
    drop(world);
    let d = drops.load(Ordering::SeqCst);
    if d != created {
        return Some(("C09", format!("{} values were created and {} dropped by the end of the history (every value must be dropped exactly once)", created, d)));
    }
    None
}
