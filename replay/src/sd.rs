//! C06: for every system-data type of the generated family (sd_gen.rs) and every presence pattern tried, what `fetch`
//! really borrows (probed through the world's own borrow discipline) equals what `reads()` / `writes()` report, and
//! `setup` is the composition of the members' setups.

use std::panic::{catch_unwind, AssertUnwindSafe};

use std::sync::atomic::{AtomicUsize, Ordering};

use shred::{Resource, ResourceId, SetupHandler, World};

use crate::{model::Rng, sd_gen};

#[derive(Clone, Copy, Debug, PartialEq)]
pub enum Kind {
    R,
    W,
    OR,
    OW,
    RE,
    WE,
    RH,
    WH,
}

#[derive(Clone, Copy, Debug, PartialEq)]
pub enum Borrow {
    Absent,
    Free,
    Shared,
    Exclusive,
}

pub struct SdCase {
    pub name: &'static str,
    pub members: Vec<(Kind, usize)>,
    pub reads: fn() -> Vec<ResourceId>,
    pub writes: fn() -> Vec<ResourceId>,
    pub setup: fn(&mut World),
    /// the route a system's provided `setup` takes: DynamicSystemData::setup with the type's StaticAccessor
    pub setup_sys: fn(&mut World),
    pub acc_reads: fn() -> Option<Vec<ResourceId>>,
    pub acc_writes: fn() -> Option<Vec<ResourceId>>,
    pub fetch_probe: fn(&World) -> Vec<Borrow>,
}

/// a user-written setup handler: provides the default like DefaultProvider does, and counts how often it is asked
pub struct CountingHandler;
pub static HANDLER_CALLS: AtomicUsize = AtomicUsize::new(0);
impl<T: Default + Resource> SetupHandler<T> for CountingHandler {
    fn setup(world: &mut World) {
        HANDLER_CALLS.fetch_add(1, Ordering::SeqCst);
        world.entry().or_insert_with(T::default);
    }
}

fn quiet<R>(f: impl FnOnce() -> R) -> Result<R, String> {
    catch_unwind(AssertUnwindSafe(f)).map_err(crate::real::panic_msg)
}

pub fn probe_one<T: Resource>(w: &World) -> Borrow {
    // (the presence query is only the instrument here: if it does not answer, ask by id)
    let present = match quiet(|| w.has_value::<T>()) {
        Ok(p) => p,
        Err(_) => w.has_value_raw(ResourceId::new::<T>()),
    };
    if !present {
        return Borrow::Absent;
    }
    if quiet(|| w.try_fetch_mut::<T>().is_some()).is_ok() {
        return Borrow::Free;
    }
    if quiet(|| w.try_fetch::<T>().is_some()).is_ok() {
        Borrow::Shared
    } else {
        Borrow::Exclusive
    }
}

pub fn probe_all(w: &World) -> Vec<Borrow> {
    (0..26).map(|i| sd_gen::probe(i, w)).collect()
}

fn set_of(v: &[ResourceId]) -> Vec<ResourceId> {
    let mut v = v.to_vec();
    v.sort();
    v.dedup();
    v
}

/// one case index + one presence mask = one check; returns a description of the first disagreement
pub fn check(case: &SdCase, mask: u32) -> Option<String> {
    let m = &case.members;
    let want_r = set_of(&m.iter().filter(|(k, _)| matches!(k, Kind::R | Kind::OR | Kind::RE | Kind::RH)).map(|(_, i)| sd_gen::qid(*i)).collect::<Vec<_>>());
    let want_w = set_of(&m.iter().filter(|(k, _)| matches!(k, Kind::W | Kind::OW | Kind::WE | Kind::WH)).map(|(_, i)| sd_gen::qid(*i)).collect::<Vec<_>>());
    let (got_r, got_w) = match quiet(|| ((case.reads)(), (case.writes)())) {
        Ok(x) => x,
        Err(e) => return Some(format!("{}: reads()/writes() panicked: {}", case.name, e)),
    };
    if set_of(&got_r) != want_r {
        return Some(format!("{}: reads() reports {} ids, the members' reads are {} ids ({:?} vs {:?})", case.name, set_of(&got_r).len(), want_r.len(), got_r, want_r));
    }
    if set_of(&got_w) != want_w {
        return Some(format!("{}: writes() reports {} ids, the members' writes are {} ids ({:?} vs {:?})", case.name, set_of(&got_w).len(), want_w.len(), got_w, want_w));
    }
    // what reaches a scheduler: the StaticAccessor of the type forwards exactly the type-level lists
    match quiet(|| ((case.acc_reads)(), (case.acc_writes)())) {
        Ok((Some(ar), Some(aw))) => {
            if set_of(&ar) != want_r || set_of(&aw) != want_w {
                return Some(format!("{}: StaticAccessor reports reads {:?} / writes {:?}, the members declare reads {:?} / writes {:?}", case.name, ar, aw, want_r, want_w));
            }
        }
        Ok(_) => return Some(format!("{}: StaticAccessor::try_new() returned None", case.name)),
        Err(e) => return Some(format!("{}: StaticAccessor panicked: {}", case.name, e)),
    }
    // ---- setup on a world in which the resources of `mask` already exist with a sentinel value: called on the type, and the way a
    // system's provided `setup` calls it (DynamicSystemData::setup with the type's StaticAccessor)
    for (route, setup) in [("setup", case.setup), ("setup as a system's data (DynamicSystemData::setup through the StaticAccessor)", case.setup_sys)] {
        let mut w = World::empty();
        for i in 0..26 {
            if mask & (1 << i) != 0 {
                sd_gen::put(i, &mut w, 1000 + i as u64);
            }
        }
        let calls0 = HANDLER_CALLS.load(Ordering::SeqCst);
        if let Err(e) = quiet(|| setup(&mut w)) {
            return Some(format!("{}: {} panicked: {}", case.name, route, e));
        }
        let handlers = m.iter().filter(|(k, _)| matches!(k, Kind::RH | Kind::WH)).count();
        let called = HANDLER_CALLS.load(Ordering::SeqCst) - calls0;
        if called != handlers {
            return Some(format!("{}: {} called the members' own setup handlers {} times, the type has {} such members (setup is the composition of the members' setups, whatever already exists)", case.name, route, called, handlers));
        }
        for i in 0..26usize {
            let pre = mask & (1 << i) != 0;
            let defaulting = m.iter().any(|(k, j)| *j == i && matches!(k, Kind::R | Kind::W | Kind::RH | Kind::WH));
            let now = sd_gen::value(i, &w);
            if pre && now != Some(1000 + i as u64) {
                return Some(format!("{}: {} changed or removed resource Q{} that already existed ({:?})", case.name, route, i, now));
            }
            if !pre && defaulting && now.is_none() {
                return Some(format!("{}: after {} the resource Q{} of a default-providing member does not exist", case.name, route, i));
            }
            if !pre && !defaulting && now.is_some() {
                return Some(format!("{}: {} created resource Q{} although no default-providing member accesses it", case.name, route, i));
            }
        }
    }
    // ---- fetch on a world with exactly the resources of `mask` (plus what non-optional members need)
    let mut w = World::empty();
    for i in 0..26 {
        let needed = m.iter().any(|(k, j)| *j == i && matches!(k, Kind::R | Kind::W | Kind::RE | Kind::WE | Kind::RH | Kind::WH));
        if needed || mask & (1 << i) != 0 {
            sd_gen::put(i, &mut w, i as u64);
        }
    }
    let before = probe_all(&w);
    let during = match quiet(|| (case.fetch_probe)(&w)) {
        Ok(s) => s,
        Err(e) => {
            // members that cannot be satisfied together (the same existing resource exclusively and once more): refusing is right
            let unsatisfiable = (0..26usize).any(|i| {
                before[i] != Borrow::Absent
                    && m.iter().filter(|(_, j)| *j == i).count() > 1
                    && m.iter().any(|(k, j)| *j == i && matches!(k, Kind::W | Kind::OW | Kind::WE | Kind::WH))
            });
            if unsatisfiable {
                return None;
            }
            return Some(format!("{}: fetch panicked although every non-optional member's resource exists: {}", case.name, e));
        }
    };
    for i in 0..26usize {
        let want = if before[i] == Borrow::Absent {
            Borrow::Absent
        } else if m.iter().any(|(k, j)| *j == i && matches!(k, Kind::W | Kind::OW | Kind::WE | Kind::WH)) {
            Borrow::Exclusive
        } else if m.iter().any(|(k, j)| *j == i && matches!(k, Kind::R | Kind::OR | Kind::RE | Kind::RH)) {
            Borrow::Shared
        } else {
            Borrow::Free
        };
        if during[i] != want {
            return Some(format!("{}: while the fetched value is alive resource Q{} is {:?}, the declared access says {:?}", case.name, i, during[i], want));
        }
    }
    let after = probe_all(&w);
    if after != before {
        return Some(format!("{}: after dropping the fetched value some resource is still borrowed ({:?})", case.name, after.iter().enumerate().filter(|(i, b)| **b != before[*i]).collect::<Vec<_>>()));
    }
    None
}

/// two distinct system-data types that are spelled alike (same-named local items in two blocks of one function, as a
/// macro used twice produces): what the StaticAccessor of the second reports must be the second's own lists
pub fn same_spelling() -> Option<String> {
    use shred::{Accessor, StaticAccessor, SystemData, Write};
    let first = {
        #[derive(Default)]
        struct Counter(#[allow(dead_code)] u64);
        type D<'a> = (Write<'a, Counter>,);
        let a = <StaticAccessor<D> as Accessor>::try_new().unwrap();
        (a.reads(), a.writes(), <D as SystemData>::reads(), <D as SystemData>::writes())
    };
    let second = {
        #[derive(Default)]
        struct Counter(#[allow(dead_code)] u32);
        type D<'a> = (Write<'a, Counter>,);
        let a = <StaticAccessor<D> as Accessor>::try_new().unwrap();
        (a.reads(), a.writes(), <D as SystemData>::reads(), <D as SystemData>::writes())
    };
    for (which, x) in [("first", &first), ("second", &second)] {
        if set_of(&x.0) != set_of(&x.2) || set_of(&x.1) != set_of(&x.3) {
            return Some(format!(
                "same-spelling/{}: of two distinct system-data types spelled alike, the StaticAccessor of the {} reports reads {:?} / writes {:?} but its type declares reads {:?} / writes {:?}",
                which, which, x.0, x.1, x.2, x.3
            ));
        }
    }
    None
}

pub fn n_cases() -> usize {
    sd_gen::cases().len()
}

/// explores case k of the family with a seeded presence mask; (name, mask, failure)
pub fn explore(k: usize, rng: &mut Rng) -> (String, u32, Option<String>) {
    if k == 0 {
        if let Some(f) = same_spelling() {
            return ("same-spelling".to_string(), 0, Some(f));
        }
    }
    let cases = sd_gen::cases();
    let c = &cases[k % cases.len()];
    let mask = match rng.below(4) {
        0 => 0,
        1 => 0x03FF_FFFF,
        _ => (rng.next() as u32) & 0x03FF_FFFF,
    };
    (c.name.to_string(), mask, check(c, mask))
}

pub fn replay(name: &str, mask: u32) -> Option<String> {
    if name == "same-spelling" {
        return same_spelling();
    }
    let cases = sd_gen::cases();
    cases.iter().find(|c| c.name == name).and_then(|c| check(c, mask))
}
