//! What each property demands of one registration sequence, read off the real crate's behaviour.
//! Every oracle reports only what the property statement itself forbids; ordering / overlap findings
//! are confirmed by a real parallel dispatch (rendezvous) before they are reported.

use std::collections::{BTreeSet, HashMap};

use crate::{model::*, real::*};

#[derive(Debug)]
pub enum Verdict {
    Holds,
    Fails(String),
    Skip(String),
}
use Verdict::*;

fn nm(i: &Info) -> String {
    let k = match i.kind {
        Kind::Sys => "system",
        Kind::Tl => "thread-local system",
        Kind::Batch => "batch",
        Kind::Nest => "nested dispatcher",
    };
    if i.name.is_empty() {
        format!("{} #{} (unnamed)", k, i.uid)
    } else {
        format!("{} #{} `{}`", k, i.uid, i.name)
    }
}

fn intervals(evs: &[Ev], uid: usize) -> Vec<(usize, usize)> {
    let mut v = vec![];
    let mut open = None;
    for (i, e) in evs.iter().enumerate() {
        if e.uid != uid {
            continue;
        }
        match e.k {
            EvK::Enter => open = Some(i),
            EvK::Exit => {
                if let Some(s) = open.take() {
                    v.push((s, i));
                }
            }
            _ => {}
        }
    }
    v
}

fn overlapped(evs: &[Ev], a: usize, b: usize) -> bool {
    let (ia, ib) = (intervals(evs, a), intervals(evs, b));
    ia.iter().any(|x| ib.iter().any(|y| x.0 < y.1 && y.0 < x.1))
}

/// in some dispatch `later` entered before `first` had exited
fn started_before_end(evs: &[Ev], first: usize, later: usize) -> bool {
    let (ia, ib) = (intervals(evs, first), intervals(evs, later));
    ia.iter().zip(ib.iter()).any(|(x, y)| y.0 < x.1)
}

struct Level<'a> {
    plan: &'a Plan,
    members: Vec<&'a Info>, // registrations of this builder
    what: String,
}

fn levels<'a>(infos: &'a [Info], obs: &'a Obs) -> Vec<Level<'a>> {
    let mut v = vec![Level { plan: &obs.top, members: infos.iter().filter(|i| i.parent.is_none()).collect(), what: "top level".into() }];
    for i in infos {
        if i.kind == Kind::Batch {
            if let Some(p) = obs.inner.get(&i.uid) {
                v.push(Level { plan: p, members: infos.iter().filter(|m| m.parent == Some(i.uid)).collect(), what: format!("inside {}", nm(i)) });
            }
        }
    }
    v
}

fn prepared(case: &Case) -> Result<(Live, Obs), Verdict> {
    let mut live = match build(case) {
        Ok(l) => l,
        Err((i, m)) => return Err(Skip(format!("builder call {} panicked: {}", i, m))),
    };
    live.setup();
    match live.identify() {
        Ok(o) => Ok((live, o)),
        Err(e) => Err(Skip(format!("layout not identifiable: {}", e))),
    }
}

// ------------------------------------------------------------------ C01 / C07

fn side_by_side(case: &Case, want_batch: Option<bool>) -> Verdict {
    let (mut live, obs) = match prepared(case) {
        Ok(x) => x,
        Err(v) => return v,
    };
    let infos = live.infos.clone();
    let mut cands = vec![];
    for lv in levels(&infos, &obs) {
        for (s, st) in lv.plan.stages.iter().enumerate() {
            for g1 in 0..st.len() {
                for g2 in g1 + 1..st.len() {
                    for &a in &st[g1] {
                        for &b in &st[g2] {
                            let (ia, ib) = (&infos[a], &infos[b]);
                            let has_batch = ia.kind == Kind::Batch || ib.kind == Kind::Batch;
                            if want_batch.map(|w| w != has_batch).unwrap_or(false) {
                                continue;
                            }
                            if let Some(r) = conflict(ia, ib) {
                                cands.push((a, b, r, s, g1, g2, lv.what.clone()));
                            }
                        }
                    }
                }
            }
        }
    }
    if std::env::var("VX_DEBUG").is_ok() && !cands.is_empty() { eprintln!("side_by_side cands {:?}\n{}", cands, case.to_text()); }
    for (a, b, r, s, g1, g2, what) in cands.into_iter().take(3) {
        let evs = live.rendezvous(a, b, false);
        if overlapped(&evs, a, b) {
            return Fails(format!(
                "{}: {} and {} conflict on resource {}.{} but sit in groups {} and {} of stage {}; in a real dispatch_par both were inside run at the same time",
                what, nm(&infos[a]), nm(&infos[b]), r.0, r.1, g1, g2, s
            ));
        }
    }
    Holds
}

/// set while a found failure is shrunk / re-evaluated and while a case file is replayed: sampled sub-checks always run
pub static FORCE_ALL: std::sync::atomic::AtomicBool = std::sync::atomic::AtomicBool::new(false);

pub fn c01(case: &Case) -> Verdict {
    match side_by_side(case, None) {
        Holds => {}
        v => return v,
    }
    // second sentence of C01: a system that fetches only what it declared never sees a borrow-conflict panic caused by a
    // sibling.  The harness systems really borrow their declared resources; every system stays 1 ms inside run so that
    // the groups of a stage overlap.  A panic here is reported by the caller (`guarded`) as the C01 violation it is.
    static N: std::sync::atomic::AtomicUsize = std::sync::atomic::AtomicUsize::new(0);
    // (every third case while searching; always once a failure is being shrunk or a case file is replayed)
    if !FORCE_ALL.load(std::sync::atomic::Ordering::SeqCst) && N.fetch_add(1, std::sync::atomic::Ordering::SeqCst) % 3 != 0 {
        return Holds;
    }
    let (mut live, _) = match prepared(case) {
        Ok(x) => x,
        Err(v) => return v,
    };
    live.ctx.real_borrow.store(true, std::sync::atomic::Ordering::SeqCst);
    live.ctx.gate_ms.store(1, std::sync::atomic::Ordering::SeqCst);
    {
        let w = &live.world;
        let d = live.dispatcher.as_mut().unwrap();
        d.dispatch_par(w);
        d.dispatch(w);
    }
    Holds
}

// ------------------------------------------------------------------ C02

fn dep_order(case: &Case, only_inner: bool) -> Verdict {
    let (mut live, obs) = match prepared(case) {
        Ok(x) => x,
        Err(v) => return v,
    };
    let infos = live.infos.clone();
    let mut cands = vec![];
    for lv in levels(&infos, &obs) {
        if only_inner && lv.what == "top level" {
            continue;
        }
        for m in &lv.members {
            for &d in &m.deps {
                let (pb, pa) = (lv.plan.pos(m.uid), lv.plan.pos(d));
                if let (Some(pb), Some(pa)) = (pb, pa) {
                    let ok = pa.0 < pb.0 || (pa.0 == pb.0 && pa.1 == pb.1 && pa.2 < pb.2);
                    if !ok {
                        cands.push((d, m.uid, pa, pb, lv.what.clone()));
                    }
                }
            }
        }
    }
    if std::env::var("VX_DEBUG").is_ok() && !cands.is_empty() { eprintln!("dep cands {:?}\n{}", cands, case.to_text()); }
    for (a, b, pa, pb, what) in cands.into_iter().take(3) {
        let evs = live.rendezvous(a, b, false);
        if started_before_end(&evs, a, b) {
            return Fails(format!(
                "{}: {} depends on {} but is placed at stage {} group {} position {} while the dependency is at stage {} group {} position {}; in a real dispatch_par it began before the dependency had finished",
                what, nm(&infos[b]), nm(&infos[a]), pb.0, pb.1, pb.2, pa.0, pa.1, pa.2
            ));
        }
    }
    Holds
}

pub fn c02(case: &Case) -> Verdict {
    dep_order(case, false)
}

// ------------------------------------------------------------------ C03

fn strip_redundant_barriers(ops: &[Op]) -> (Vec<Op>, bool) {
    let mut out = vec![];
    let mut since = false; // a system was registered since the previous barrier
    let mut changed = false;
    for op in ops {
        match op {
            Op::Barrier => {
                if since {
                    out.push(Op::Barrier);
                    since = false;
                } else {
                    changed = true;
                }
            }
            Op::Tl(_) => out.push(op.clone()),
            _ => {
                since = true;
                out.push(op.clone());
            }
        }
    }
    (out, changed)
}

fn barrier_order(case: &Case, only_inner: bool) -> Verdict {
    let (mut live, obs) = match prepared(case) {
        Ok(x) => x,
        Err(v) => return v,
    };
    let infos = live.infos.clone();
    let mut cands = vec![];
    for lv in levels(&infos, &obs) {
        if only_inner && lv.what == "top level" {
            continue;
        }
        for x in &lv.members {
            for y in &lv.members {
                if x.kind == Kind::Tl || y.kind == Kind::Tl || x.epoch >= y.epoch {
                    continue;
                }
                if let (Some(px), Some(py)) = (lv.plan.pos(x.uid), lv.plan.pos(y.uid)) {
                    if px.0 >= py.0 {
                        cands.push((x.uid, y.uid, px.0, py.0, lv.what.clone()));
                    }
                }
            }
        }
    }
    if std::env::var("VX_DEBUG").is_ok() && !cands.is_empty() { eprintln!("barrier cands {:?}\n{}", cands, case.to_text()); }
    for (x, y, sx, sy, what) in cands.into_iter().take(3) {
        let evs = live.rendezvous(x, y, false);
        if started_before_end(&evs, x, y) {
            return Fails(format!(
                "{}: {} was registered before a barrier and {} after it, yet they sit in stages {} and {}; in a real dispatch_par the later one began before the earlier one had finished",
                what, nm(&infos[x]), nm(&infos[y]), sx, sy
            ));
        }
    }
    if !only_inner {
        let (stripped, changed) = strip_redundant_barriers(&case.ops);
        if changed {
            let c2 = Case { ops: stripped };
            if let Ok((_, obs2)) = prepared(&c2) {
                if obs2.top != obs.top {
                    return Fails(format!(
                        "a barrier with no system registered since the previous barrier (or at the very beginning) changed the plan: with it {:?}, without it {:?}",
                        obs.top.stages, obs2.top.stages
                    ));
                }
            }
        }
    }
    Holds
}

pub fn c03(case: &Case) -> Verdict {
    barrier_order(case, false)
}

// ------------------------------------------------------------------ C04

/// `ident`: identification mode, in which every hand-written controller dispatches its batch exactly once
fn expected_runs(infos: &[Info], top_staged: usize, top_tl: usize, ident: bool) -> Vec<usize> {
    let mut exp = vec![0usize; infos.len()];
    for i in infos {
        // parents precede children in pre-order
        exp[i.uid] = match i.parent {
            None => {
                if i.kind == Kind::Tl || i.kind == Kind::Nest {
                    top_tl
                } else {
                    top_staged
                }
            }
            Some(p) => exp[p] * if ident && infos[p].kind == Kind::Batch && !infos[p].multi { 1 } else { infos[p].n },
        };
    }
    exp
}

fn once(case: &Case, only_inner: bool) -> Verdict {
    let mut live = match build(case) {
        Ok(l) => l,
        Err((i, m)) => return Skip(format!("builder call {} panicked: {}", i, m)),
    };
    live.setup();
    let infos = live.infos.clone();
    // one sequential dispatch of everything (identification mode: every controller dispatches its batch once)
    match live.identify() {
        Err(e) => {
            if !only_inner || !e.starts_with("top-level") {
                return Fails(e);
            }
        }
        Ok(obs) => {
            let mut seen: HashMap<usize, usize> = HashMap::new();
            for e in &obs.ident_events {
                if e.k == EvK::Enter {
                    *seen.entry(e.uid).or_default() += 1;
                }
            }
            let exp = expected_runs(&infos, 1, 1, true);
            for i in &infos {
                if only_inner && i.parent.is_none() {
                    continue;
                }
                let n = seen.get(&i.uid).copied().unwrap_or(0);
                if n != exp[i.uid] {
                    return Fails(format!("{} ran {} times in one sequential dispatch (dispatch_seq + dispatch_thread_local), exactly {} expected", nm(i), n, exp[i.uid]));
                }
            }
        }
    }
    live.ctx.take();
    {
        let w = &live.world;
        let d = live.dispatcher.as_mut().unwrap();
        d.dispatch(w);
        d.dispatch_par(w);
        d.dispatch_seq(w);
        d.dispatch(w);
        d.dispatch_thread_local(w);
    }
    let evs = live.ctx.take();
    let mut seen: HashMap<usize, usize> = HashMap::new();
    for e in &evs {
        if e.k == EvK::Enter {
            *seen.entry(e.uid).or_default() += 1;
        }
    }
    let exp = expected_runs(&infos, 4, 3, false);
    for i in &infos {
        if only_inner && i.parent.is_none() {
            continue;
        }
        let n = seen.get(&i.uid).copied().unwrap_or(0);
        if n != exp[i.uid] {
            return Fails(format!(
                "{} ran {} times over dispatch, dispatch_par, dispatch_seq, dispatch, dispatch_thread_local; exactly {} expected",
                nm(i),
                n,
                exp[i.uid]
            ));
        }
    }
    Holds
}

pub fn c04(case: &Case) -> Verdict {
    once(case, false)
}

// ------------------------------------------------------------------ C07

pub fn c07(case: &Case) -> Verdict {
    for v in [side_by_side(case, Some(true)), inner_isolation(case), dep_order(case, true), barrier_order(case, true), once(case, true)] {
        if let Fails(_) = v {
            return v;
        }
    }
    Holds
}

/// conflicting plain systems side by side inside a batch
fn inner_isolation(case: &Case) -> Verdict {
    let (mut live, obs) = match prepared(case) {
        Ok(x) => x,
        Err(v) => return v,
    };
    let infos = live.infos.clone();
    let mut cands = vec![];
    for lv in levels(&infos, &obs) {
        if lv.what == "top level" {
            continue;
        }
        for (s, st) in lv.plan.stages.iter().enumerate() {
            for g1 in 0..st.len() {
                for g2 in g1 + 1..st.len() {
                    for &a in &st[g1] {
                        for &b in &st[g2] {
                            if let Some(r) = conflict(&infos[a], &infos[b]) {
                                cands.push((a, b, r, s, lv.what.clone()));
                            }
                        }
                    }
                }
            }
        }
    }
    if std::env::var("VX_DEBUG").is_ok() && !cands.is_empty() { eprintln!("inner cands {:?}\n{}", cands, case.to_text()); }
    for (a, b, r, s, what) in cands.into_iter().take(3) {
        let evs = live.rendezvous(a, b, false);
        if overlapped(&evs, a, b) {
            return Fails(format!(
                "{}: {} and {} conflict on resource {}.{} but share stage {} in different groups; both were inside run at the same time",
                what, nm(&infos[a]), nm(&infos[b]), r.0, r.1, s
            ));
        }
    }
    Holds
}

// ------------------------------------------------------------------ C10

pub fn c10(case: &Case) -> Verdict {
    let (live, obs) = match prepared(case) {
        Ok(x) => x,
        Err(v) => return v,
    };
    let infos = &live.infos;
    for lv in levels(infos, &obs) {
        for x in &lv.members {
            if x.kind == Kind::Tl {
                continue;
            }
            let px = match lv.plan.pos(x.uid) {
                Some(p) => p,
                None => continue,
            };
            // first stage after the most recent barrier that had systems in front of it
            let mut base = 0;
            for y in &lv.members {
                if y.kind != Kind::Tl && y.epoch < x.epoch {
                    if let Some(py) = lv.plan.pos(y.uid) {
                        base = base.max(py.0 + 1);
                    }
                }
            }
            for t in base..px.0 {
                let conflicting = lv.plan.stages[t].iter().flatten().any(|&u| infos[u].reg < x.reg && conflict(x, &infos[u]).is_some());
                let dep_there = x.deps.iter().any(|&d| lv.plan.pos(d).map(|p| p.0 >= t).unwrap_or(false));
                if !conflicting && !dep_there {
                    return Fails(format!(
                        "{}: {} sits in stage {} although stage {} (not before the most recent barrier) holds no earlier system it conflicts with and none of its dependencies is in stage {} or later; plan {:?}",
                        lv.what, nm(x), px.0, t, t, lv.plan.stages
                    ));
                }
            }
        }
    }
    let widest = obs.top.stages.iter().map(|s| s.len()).max().unwrap_or(0);
    if live.max_threads != widest {
        return Fails(format!("max_threads() reports {} but the widest stage has {} groups; plan {:?}", live.max_threads, widest, obs.top.stages));
    }
    Holds
}

// ------------------------------------------------------------------ C12

pub fn c12(case: &Case) -> Verdict {
    let (mut live, obs) = match prepared(case) {
        Ok(x) => x,
        Err(v) => return v,
    };
    let infos = live.infos.clone();
    let me = std::thread::current().id();
    live.ctx.take();
    {
        let w = &live.world;
        live.dispatcher.as_mut().unwrap().dispatch(w);
    }
    let evs = live.ctx.take();
    let is_tl = |i: &Info| i.parent.is_none() && (i.kind == Kind::Tl || i.kind == Kind::Nest);
    let tls: Vec<&Info> = infos.iter().filter(|i| is_tl(i)).collect();
    let mut last_exit_staged = None;
    for (k, e) in evs.iter().enumerate() {
        if e.k == EvK::Exit && !is_tl(&infos[e.uid]) && infos[e.uid].parent.is_none() {
            last_exit_staged = Some(k);
        }
    }
    let mut order = vec![];
    for (k, e) in evs.iter().enumerate() {
        if e.k == EvK::Enter && is_tl(&infos[e.uid]) {
            if e.thread != me {
                return Fails(format!("{} ran on {:?}, not on the thread that called dispatch ({:?})", nm(&infos[e.uid]), e.thread, me));
            }
            if let Some(l) = last_exit_staged {
                if k < l {
                    return Fails(format!("{} started before {} had finished", nm(&infos[e.uid]), nm(&infos[evs[l].uid])));
                }
            }
            order.push(e.uid);
        }
    }
    // thread-local systems registered on a builder that was passed to add_batch run once per inner dispatch
    // (on which thread is known finding KF1 and not checked here)
    {
        let exp = expected_runs(&infos, 1, 1, false);
        for i in infos.iter().filter(|i| i.kind == Kind::Tl && i.parent.is_some()) {
            let n = evs.iter().filter(|e| e.uid == i.uid && e.k == EvK::Enter).count();
            if n != exp[i.uid] {
                return Fails(format!("{} (registered on an inner builder: a batch or a nested dispatcher) ran {} times in one dispatch, {} expected", nm(i), n, exp[i.uid]));
            }
        }
    }
    let want: Vec<usize> = tls.iter().map(|i| i.uid).collect();
    if order != want {
        return Fails(format!("thread-local systems ran in order {:?}, registered in order {:?}", order, want));
    }
    // a thread-local system must not overlap another one
    for w in order.windows(2) {
        if overlapped(&evs, w[0], w[1]) {
            return Fails(format!("thread-local systems #{} and #{} overlapped", w[0], w[1]));
        }
    }
    // held-dispatch variant: hold the last staged system and see whether a thread-local one starts
    if let (Some(&tl), Some(last)) = (want.first(), obs.top.stages.last().and_then(|s| s.last()).and_then(|g| g.last())) {
        let evs = live.rendezvous_ms(*last, tl, true, 4);
        if started_before_end(&evs, *last, tl) {
            return Fails(format!("{} started while {} was still inside run", nm(&infos[tl]), nm(&infos[*last])));
        }
    }
    let d = live.dispatcher.take().unwrap();
    let before = live.shape.0.clone();
    match d.try_into_sendable() {
        Ok(sd) => {
            if !want.is_empty() {
                return Fails("try_into_sendable succeeded although thread-local systems are registered".into());
            }
            if sd.vx_shape() != before {
                return Fails(format!("try_into_sendable changed the plan: {:?} -> {:?}", before, sd.vx_shape()));
            }
        }
        Err(d) => {
            if want.is_empty() {
                return Fails("try_into_sendable failed although no thread-local system is registered".into());
            }
            // the dispatcher handed back by a refused conversion is the original one
            let (st, tl) = d.vx_shape();
            if tl != want.len() || st != before {
                return Fails(format!("a refused try_into_sendable handed back a dispatcher with {} thread-local systems and plan {:?}; it had {} and {:?}", tl, st, want.len(), before));
            }
        }
    }
    Holds
}

// ------------------------------------------------------------------ C13

pub fn c13(case: &Case) -> Verdict {
    let mut live = match build(case) {
        Ok(l) => l,
        Err((i, m)) => return Skip(format!("builder call {} panicked: {}", i, m)),
    };
    let infos = live.infos.clone();
    // the controller-data check below needs R1 to be absent before setup (the harness world pre-inserts the resource pool)
    let _ = live.world.remove::<R1>();
    for call in ["first", "second"] {
        live.setup();
        let mut seen: HashMap<usize, usize> = HashMap::new();
        for e in &live.setup_events {
            if e.k == EvK::Setup {
                *seen.entry(e.uid).or_default() += 1;
            }
        }
        for i in &infos {
            if i.kind == Kind::Sys || i.kind == Kind::Tl {
                let n = seen.get(&i.uid).copied().unwrap_or(0);
                if n != 1 {
                    return Fails(format!("the {} call of Dispatcher::setup called the setup of {} {} times, expected exactly once", call, nm(i), n));
                }
            }
        }
    }
    fn ctls(ops: &[Op], out: &mut Vec<u8>) {
        for o in ops {
            if let Op::Batch(b) = o {
                out.push(b.ctl);
                ctls(&b.inner, out);
            }
        }
    }
    let mut cs = vec![];
    ctls(&case.ops, &mut cs);
    if cs.iter().any(|c| *c == 3) && !live.world.has_value::<R1>() {
        return Fails("after setup the resource declared by a batch controller (Write<R1>) does not exist".into());
    }
    if live.world.try_fetch::<R0>().map(|r| r.0) != Some(live.pre_setup_r0) {
        return Fails("setup modified or removed a resource that already existed (R0)".into());
    }
    let d = live.dispatcher.take().unwrap();
    d.dispose(&mut live.world);
    let evs = live.ctx.take();
    let mut seen: HashMap<usize, usize> = HashMap::new();
    for e in &evs {
        if e.k == EvK::Dispose {
            *seen.entry(e.uid).or_default() += 1;
        }
    }
    for i in &infos {
        if i.kind == Kind::Sys || i.kind == Kind::Tl {
            let n = seen.get(&i.uid).copied().unwrap_or(0);
            if n != 1 {
                return Fails(format!("Dispatcher::dispose handed {} to its dispose hook {} times, expected exactly once", nm(i), n));
            }
        }
    }
    Holds
}

// ------------------------------------------------------------------ C18

pub fn c18(case: &Case) -> Verdict {
    use std::panic::{catch_unwind, AssertUnwindSafe};
    let ctx = Ctx::new();
    let mut b = Builder::new();
    b.add_pool(pool());
    let mut uid = 0;
    let mut names: BTreeSet<String> = BTreeSet::new();
    for (i, op) in case.ops.iter().enumerate() {
        let (name, deps): (&str, &[String]) = match op {
            Op::Sys(s) => (&s.name, &s.deps),
            Op::Batch(bs) => (&bs.name, &bs.deps),
            _ => ("", &[]),
        };
        let unknown: Vec<&String> = deps.iter().filter(|d| !names.contains(*d)).collect();
        let reused = !name.is_empty() && names.contains(name);
        let r = catch_unwind(AssertUnwindSafe(|| apply(&mut b, op, &mut uid, &ctx)));
        match r {
            Ok(()) => {
                if !unknown.is_empty() {
                    return Fails(format!("registration {} names the unregistered dependency `{}` but the call returned", i, unknown[0]));
                }
                if reused {
                    return Fails(format!("registration {} reuses the name `{}` but the call returned", i, name));
                }
                if !name.is_empty() {
                    names.insert(name.to_string());
                }
            }
            Err(p) => {
                let msg = panic_msg(p);
                if unknown.is_empty() && !reused {
                    return Fails(format!("well-formed registration {} panicked: {}", i, msg));
                }
                let quoted = unknown.iter().any(|d| msg.contains(d.as_str())) || (reused && msg.contains(name));
                if !quoted {
                    return Fails(format!("registration {} is ill-formed and panicked, but the message `{}` does not quote the offending name", i, msg));
                }
                return Holds;
            }
        }
    }
    if let Err(p) = catch_unwind(AssertUnwindSafe(|| b.build())) {
        return Fails(format!("build() panicked on a well-formed registration sequence: {}", panic_msg(p)));
    }
    Holds
}

// ------------------------------------------------------------------ C19

fn show(p: &(Plan, Vec<(usize, Plan)>)) -> String {
    let mut s = format!("{:?}", p.0.stages);
    for (b, ip) in &p.1 {
        s += &format!(" batch#{}:{:?}", b, ip.stages);
    }
    s
}

fn plans(case: &Case) -> Result<(Plan, Vec<(usize, Plan)>), Verdict> {
    let (_, obs) = prepared(case)?;
    let mut inner: Vec<(usize, Plan)> = obs.inner.into_iter().collect();
    inner.sort_by_key(|x| x.0);
    Ok((obs.top, inner))
}

fn map_ops(ops: &[Op], f: &mut dyn FnMut(&mut SysSpec), g: &mut dyn FnMut(&mut BatchSpec)) -> Vec<Op> {
    ops.iter()
        .map(|o| match o {
            Op::Sys(s) => {
                let mut s = s.clone();
                f(&mut s);
                Op::Sys(s)
            }
            Op::Tl(s) => {
                let mut s = s.clone();
                f(&mut s);
                Op::Tl(s)
            }
            Op::Barrier => Op::Barrier,
            Op::Nest(i) => Op::Nest(map_ops(i, f, g)),
            Op::Batch(b) => {
                let mut b = b.clone();
                b.inner = map_ops(&b.inner, f, g);
                g(&mut b);
                Op::Batch(b)
            }
        })
        .collect()
}

pub fn c19(case: &Case, seed: u64) -> Verdict {
    let base = match plans(case) {
        Ok(p) => p,
        Err(v) => return v,
    };
    let mut rng = Rng::new(seed ^ 0x5151);
    // (1) same sequence again
    match plans(case) {
        Ok(p) if p != base => return Fails(format!("building the same registration sequence twice gave different plans: {} vs {}", show(&base), show(&p))),
        _ => {}
    }
    // (1a) ... and prints the same plan text (ids, hence the placeholders of unnamed systems, are positions in the registration sequence)
    if let (Ok(a), Ok(b)) = (build(case), build(case)) {
        if let (Ok(ta), Ok(tb)) = (&a.debug_text, &b.debug_text) {
            if ta != tb {
                return Fails(format!("building the same registration sequence twice printed different plans: `{}` vs `{}`", ta, tb));
            }
        }
    }
    // (1c) the order in which a system lists its dependencies is not part of the dependency structure
    for rot in [0usize, 1] {
        let c1c = Case {
            ops: map_ops(
                &case.ops,
                &mut |s| {
                    if rot == 0 { s.deps.reverse() } else if s.deps.len() > 1 { s.deps.rotate_left(1) }
                },
                &mut |b| {
                    if rot == 0 { b.deps.reverse() } else if b.deps.len() > 1 { b.deps.rotate_left(1) }
                },
            ),
        };
        if c1c == *case {
            continue;
        }
        match plans(&c1c) {
            Ok(p) if p != base => return Fails(format!("listing the same dependencies in another order changed the plan: {} vs {}", show(&base), show(&p))),
            _ => {}
        }
    }
    // (1b) same sequence built where rayon reports another number of workers (on a worker of a small pool, as in a process
    // started with another RAYON_NUM_THREADS): "in every process and feature configuration"
    {
        use std::sync::OnceLock;
        static SMALL: OnceLock<Vec<rayon::ThreadPool>> = OnceLock::new();
        let small = SMALL.get_or_init(|| [1usize, 3].iter().map(|n| rayon::ThreadPoolBuilder::new().num_threads(*n).build().unwrap()).collect());
        for sp in small.iter() {
            match sp.install(|| plans(case)) {
                Ok(p) if p != base => {
                    return Fails(format!(
                        "building the same registration sequence where rayon has {} worker(s) (rayon::current_num_threads) changed the plan: {} vs {}",
                        sp.current_num_threads(),
                        show(&base),
                        show(&p)
                    ))
                }
                _ => {}
            }
        }
    }
    // (2) renaming of systems
    let ren = |n: &str| if n.is_empty() { String::new() } else { format!("zz/{} x", n.chars().rev().collect::<String>()) };
    let c2 = Case {
        ops: map_ops(
            &case.ops,
            &mut |s| {
                s.name = ren(&s.name);
                s.deps = s.deps.iter().map(|d| ren(d)).collect();
            },
            &mut |b| {
                b.name = ren(&b.name);
                b.deps = b.deps.iter().map(|d| ren(d)).collect();
            },
        ),
    };
    match plans(&c2) {
        Ok(p) if p != base => return Fails(format!("renaming the systems changed the plan: {} vs {}", show(&base), show(&p))),
        _ => {}
    }
    // (2b) every unnamed system gets a name nobody refers to; (2c) every name nobody depends on is dropped
    let mut fresh = 0;
    let c2b = Case {
        ops: map_ops(
            &case.ops,
            &mut |s| {
                if s.name.is_empty() {
                    fresh += 1;
                    s.name = format!("anon-{}", fresh);
                }
            },
            &mut |_| {},
        ),
    };
    match plans(&c2b) {
        Ok(p) if p != base => return Fails(format!("giving the unnamed systems names (nobody depends on them) changed the plan: {} vs {}", show(&base), show(&p))),
        _ => {}
    }
    let depended: std::cell::RefCell<BTreeSet<String>> = std::cell::RefCell::new(BTreeSet::new());
    map_ops(&case.ops, &mut |s| depended.borrow_mut().extend(s.deps.iter().cloned()), &mut |b| depended.borrow_mut().extend(b.deps.iter().cloned()));
    let depended = depended.into_inner();
    let c2c = Case {
        ops: map_ops(
            &case.ops,
            &mut |s| {
                if !depended.contains(&s.name) {
                    s.name = String::new();
                }
            },
            &mut |b| {
                if !depended.contains(&b.name) {
                    b.name = String::new();
                }
            },
        ),
    };
    match plans(&c2c) {
        Ok(p) if p != base => return Fails(format!("dropping the names nobody depends on changed the plan: {} vs {}", show(&base), show(&p))),
        _ => {}
    }
    // (3) injective relabelling of resources across types and dynamic ids (controllers' static data stay fixed)
    let mut used: BTreeSet<Res> = BTreeSet::new();
    map_ops(&case.ops, &mut |s| used.extend(s.reads.iter().chain(s.writes.iter()).copied()), &mut |_| {});
    let fixed: BTreeSet<Res> = {
        let mut f = BTreeSet::new();
        map_ops(&case.ops, &mut |_| {}, &mut |b| {
            let (r, w) = ctl_access(b.ctl);
            f.extend(r);
            f.extend(w);
        });
        f
    };
    let mut targets: Vec<Res> = (0..4u8).flat_map(|t| (10..16u64).map(move |d| (t, d))).collect();
    for i in (1..targets.len()).rev() {
        targets.swap(i, rng.below(i + 1));
    }
    let mut relabel: HashMap<Res, Res> = HashMap::new();
    for (k, r) in used.iter().enumerate() {
        relabel.insert(*r, if fixed.contains(r) { *r } else { targets[k] });
    }
    let c3 = Case {
        ops: map_ops(
            &case.ops,
            &mut |s| {
                s.reads = s.reads.iter().map(|r| relabel[r]).collect();
                s.writes = s.writes.iter().map(|r| relabel[r]).collect();
            },
            &mut |_| {},
        ),
    };
    match plans(&c3) {
        Ok(p) if p != base => return Fails(format!("an injective relabelling of the resources changed the plan: {} vs {}; relabelling {:?}", show(&base), show(&p), relabel)),
        _ => {}
    }
    // (4) permutation of each system's read / write lists
    let c4 = Case {
        ops: map_ops(
            &case.ops,
            &mut |s| {
                s.reads.reverse();
                s.writes.reverse();
                if s.reads.len() > 2 {
                    let k = rng.below(s.reads.len());
                    s.reads.swap(0, k);
                }
            },
            &mut |_| {},
        ),
    };
    match plans(&c4) {
        Ok(p) if p != base => return Fails(format!("permuting the declared read/write lists changed the plan: {} vs {}", show(&base), show(&p))),
        _ => {}
    }
    Holds
}

// ------------------------------------------------------------------ C20

fn parse_plan(text: &str) -> Result<Vec<Vec<Vec<String>>>, String> {
    let lines: Vec<&str> = text.lines().map(|l| l.trim()).filter(|l| !l.is_empty()).collect();
    let mut i = 0;
    let expect = |i: &mut usize, what: &str| -> Result<(), String> {
        if lines.get(*i).copied() == Some(what) {
            *i += 1;
            Ok(())
        } else {
            Err(format!("line {}: expected `{}`, found `{}`", *i + 1, what, lines.get(*i).copied().unwrap_or("<end>")))
        }
    };
    expect(&mut i, "seq![")?;
    let mut stages = vec![];
    while lines.get(i).copied() == Some("par![") {
        i += 1;
        let mut groups = vec![];
        while lines.get(i).copied() == Some("seq![") {
            i += 1;
            let mut g = vec![];
            while let Some(l) = lines.get(i) {
                if *l == "]," {
                    break;
                }
                g.push(l.strip_suffix(',').ok_or_else(|| format!("line {}: label without trailing comma: `{}`", i + 1, l))?.to_string());
                i += 1;
            }
            expect(&mut i, "],")?;
            groups.push(g);
        }
        expect(&mut i, "],")?;
        stages.push(groups);
    }
    expect(&mut i, "]")?;
    if i != lines.len() {
        return Err(format!("trailing text after the closing bracket: `{}`", lines[i]));
    }
    Ok(stages)
}

pub fn sanitise(n: &str) -> String {
    n.replace([' ', '-', '/'], "_")
}

pub fn c20(case: &Case) -> Verdict {
    match c20_with(case, false) {
        Holds => c20_with(case, true),
        v => v,
    }
}

fn c20_with(case: &Case, refused_duplicates: bool) -> Verdict {
    let (live, obs) = {
        let mut live = match build_with(case, refused_duplicates) {
            Ok(l) => l,
            Err((i, m)) => return Skip(format!("builder call {} panicked: {}", i, m)),
        };
        live.setup();
        match live.identify() {
            Ok(o) => (live, o),
            Err(e) => return Skip(format!("layout not identifiable: {}", e)),
        }
    };
    let infos = &live.infos;
    for (what, text) in [("{:?}", &live.debug_text), ("{:#?}", &live.pretty_text)] {
        let text = match text {
            Ok(t) => t,
            Err(m) => return Fails(format!("formatting the builder with {} panicked: {}", what, m)),
        };
        let printed = match parse_plan(text) {
            Ok(p) => p,
            Err(e) => return Fails(format!("the printed plan is not a seq/par/seq nest: {}", e)),
        };
        let real = &obs.top.stages;
        let shape_p: Vec<Vec<usize>> = printed.iter().map(|s| s.iter().map(|g| g.len()).collect()).collect();
        let shape_r: Vec<Vec<usize>> = real.iter().map(|s| s.iter().map(|g| g.len()).collect()).collect();
        if shape_p != shape_r {
            return Fails(format!("the printed plan has shape {:?} but the built dispatcher runs shape {:?}", shape_p, shape_r));
        }
        // every unnamed system has a placeholder of its own: two of them under one label would list one system twice and the other not at all
        if !infos.iter().any(|o| o.parent.is_none() && o.name.starts_with("unnamed_")) {
            let mut seen: Vec<(&String, usize)> = vec![];
            for (s, st) in real.iter().enumerate() {
                for (g, gr) in st.iter().enumerate() {
                    for (p, &u) in gr.iter().enumerate() {
                        if infos[u].name.is_empty() {
                            let label = &printed[s][g][p];
                            if let Some((_, other)) = seen.iter().find(|(l, _)| *l == label) {
                                return Fails(format!(
                                    "the printed plan shows the placeholder `{}` both for the unnamed {} and for the unnamed {} (stage {} group {} position {}): every system is listed exactly once",
                                    label, nm(&infos[*other]), nm(&infos[u]), s, g, p
                                ));
                            }
                            seen.push((label, u));
                        }
                    }
                }
            }
        }
        for (s, st) in real.iter().enumerate() {
            for (g, gr) in st.iter().enumerate() {
                for (p, &u) in gr.iter().enumerate() {
                    let label = &printed[s][g][p];
                    if !infos[u].name.is_empty() && *label != sanitise(&infos[u].name) {
                        return Fails(format!(
                            "stage {} group {} position {} runs {} but the printed plan shows `{}` there (expected `{}`){}",
                            s, g, p, nm(&infos[u]), label, sanitise(&infos[u].name),
                            if refused_duplicates { "; after every named system a second registration under the same name was attempted and refused (its panic caught)" } else { "" }
                        ));
                    }
                    if label.is_empty() || !label.chars().all(|c| c.is_alphanumeric() || c == '_') {
                        return Fails(format!(
                            "stage {} group {} position {} runs {} but the printed plan shows `{}` there, which is neither a sanitised name nor a placeholder",
                            s, g, p, nm(&infos[u]), label
                        ));
                    }
                    if infos[u].name.is_empty() {
                        // a placeholder must not pass for one of the named systems of this builder
                        if infos.iter().any(|o| o.parent.is_none() && !o.name.is_empty() && !o.name.starts_with("unnamed_") && sanitise(&o.name) == *label) {
                            return Fails(format!("stage {} group {} position {} runs the unnamed {} but the printed plan shows the name `{}` of another system", s, g, p, nm(&infos[u]), label));
                        }
                    }
                }
            }
        }
    }
    Holds
}

pub fn check(prop: &str, case: &Case, seed: u64) -> Verdict {
    match prop {
        "C01" => c01(case),
        "C02" => c02(case),
        "C03" => c03(case),
        "C04" => c04(case),
        "C07" => c07(case),
        "C10" => c10(case),
        "C12" => c12(case),
        "C13" => c13(case),
        "C18" => c18(case),
        "C19" => c19(case, seed),
        "C20" => c20(case),
        _ => Skip(format!("no bounded oracle for {}", prop)),
    }
}
