#!/bin/sh
# tools/recheck_cells.sh <prop> <seed-id>... : re-run ONE check against the given seeded changes (after the machinery of that check
# changed), overwrite build/fm/<id>.<prop>.{out,rc}; then tools/rebuild_tsv.py rebuilds build/full_matrix.tsv from the rc files
export VERIF_EVIDENCE=/verif/build/evidence-changed-tree
cd /verif
p=$1; shift
for id in "$@"; do
  git -C /repo apply /verif/seeded/$id/patch.diff || { echo "$id patch-does-not-apply"; continue; }
  ./check $p > build/fm/$id.$p.out 2>&1; echo $? > build/fm/$id.$p.rc
  git -C /repo checkout -- .
  echo "$id $p=$(cat build/fm/$id.$p.rc)"
done
git -C /repo status --short | head -3
