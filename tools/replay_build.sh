#!/bin/sh
# tools/replay_build.sh [features-flag...] : scratch copy of /repo's working tree + probes + harness, built into build/replay-target
set -e
S=/var/tmp/vx-replay-src
rm -rf $S; mkdir -p $S
rsync -a --exclude target --exclude .git /repo/ $S/shred/
for f in stage send_dispatcher dispatcher; do cat /verif/replay/probe/$f.rs.append >> $S/shred/src/dispatch/$f.rs; done
rsync -a --exclude target /verif/replay/ $S/harness/
cp /repo/Cargo.lock $S/harness/ 2>/dev/null || true
cd $S/harness && CARGO_TARGET_DIR=/verif/build/replay-target CARGO_NET_OFFLINE=true cargo build --offline "$@" 2>&1 | grep -E "^(error|warning: unused)" -A8 | head -60
rm -rf $S
