#!/bin/sh
# runs on changed trees must not overwrite the committed evidence of the unchanged tree
export VERIF_EVIDENCE=/verif/build/evidence-changed-tree
# tools/try_patch.sh <patch.diff> <prop> [<prop>...] : apply a patch to /repo, run the checks, undo it straight afterwards
p="$1"; shift
git -C /repo apply "$p" || { echo "patch does not apply"; exit 3; }
for id in "$@"; do
  echo "--- ./check $id"
  /verif/check "$id"; echo "exit=$?"
done
git -C /repo checkout -- . 
git -C /repo status --short | head -3
