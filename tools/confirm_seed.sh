#!/bin/sh
# tools/confirm_seed.sh <seed-dir> : confirm a seeded change in a scratch worktree (outside /repo and /verif), then remove it.
#  1. patch applies, crate builds, the existing suite passes with the change
#  2. demo fails with the change   3. demo passes without it
d="$1"; id=$(basename "$d")
wt=/var/tmp/seedwt-$id
rm -rf "$wt"; git -C /repo worktree prune
git -C /repo worktree add -q --detach "$wt" HEAD || exit 3
export CARGO_TARGET_DIR=/var/tmp/seed-target CARGO_NET_OFFLINE=true
cd "$wt"
res="id=$id"
if git apply "$d/patch.diff"; then res="$res applies=yes"; else res="$res applies=NO"; fi
if cargo test --workspace --no-fail-fast --offline >/var/tmp/seedwt-$id.suite.log 2>&1; then res="$res suite_with_change=pass"; else res="$res suite_with_change=FAIL"; fi
cp "$d/demo.rs" tests/seed_demo.rs
if cargo test --offline --test seed_demo >/var/tmp/seedwt-$id.demo_with.log 2>&1; then res="$res demo_with_change=PASS(bad)"; else res="$res demo_with_change=fails"; fi
git apply -R "$d/patch.diff"
if cargo test --offline --test seed_demo >/var/tmp/seedwt-$id.demo_without.log 2>&1; then res="$res demo_without_change=passes"; else res="$res demo_without_change=FAILS(bad)"; fi
cd /; git -C /repo worktree remove --force "$wt"; git -C /repo worktree prune
echo "$res"
