#!/bin/sh
# runs on changed trees must not overwrite the committed evidence of the unchanged tree
export VERIF_EVIDENCE=/verif/build/evidence-changed-tree
# tools/seed_matrix.sh [ids...] : for every seeded change apply it to /repo, run the check of its own property, undo; summary -> build/seed_matrix.tsv
cd /verif
ids="$@"; [ -z "$ids" ] && ids=$(cd seeded && ls -d */ | tr -d /)
mkdir -p build
for id in $ids; do
  p=${id%%-*}
  git -C /repo apply /verif/seeded/$id/patch.diff || { echo "$id	patch-does-not-apply"; continue; }
  out=$(./check $p 2>&1); rc=$?
  git -C /repo checkout -- .
  how=$(echo "$out" | grep -m1 "^VIOLATION" | sed 's/.*replay=//')
  first=$(echo "$out" | grep -m1 "^failed obligation\|^failing input\|^UNDECIDED\|^PROOF-UNDECIDED" | cut -c1-220)
  nproof=$(echo "$out" | grep -c "^failed obligation")
  ninput=$(echo "$out" | grep -c "^failing input")
  echo "$id	rc=$rc	proof_failures=$nproof	real_input=$ninput	$first"
done | tee build/seed_matrix.tsv
git -C /repo status --short | head -3
