#!/bin/sh
# tools/adopt_seed.sh <id>... : confirm /tmp/seed-out/<id> (tools/confirm_seed.sh), and when confirmed copy it to seeded/<id>/ with meta.json
cd /verif
for id in "$@"; do
  src=/tmp/seed-out/$id
  res=$(tools/confirm_seed.sh $src)
  echo "$res"
  case "$res" in
    *"applies=yes suite_with_change=pass demo_with_change=fails demo_without_change=passes"*) ;;
    *) echo "NOT adopted: $id"; continue;;
  esac
  mkdir -p seeded/$id
  cp $src/patch.diff $src/demo.rs $src/notes.md seeded/$id/
  python3 - "$id" "$res" <<'EOP'
import json, re, subprocess, sys
id, res = sys.argv[1], sys.argv[2]
files = re.findall(r"^\+\+\+ b/(\S+)", open("/verif/seeded/%s/patch.diff" % id).read(), re.M)
head = subprocess.run(["git", "-C", "/repo", "rev-parse", "--short", "HEAD"], capture_output=True, text=True).stdout.strip()
json.dump({
 "id": id, "breaks_property": id.split("-")[0], "files_touched": files,
 "origin": "written by an independent sub-agent that was given only the text of the property and a scratch worktree of /repo (nothing from /verif)",
 "needs_to_manifest": "see notes.md (section on what is needed for the change to manifest)",
 "confirmed_by": {"command": "tools/confirm_seed.sh /verif/seeded/%s   (scratch worktree under /var/tmp, removed afterwards)" % id,
   "result": res.split(" ", 1)[1],
   "meaning": "patch applies to HEAD %s; `cargo test --workspace --offline` passes with the change; demo.rs (dropped into tests/) fails with the change and passes without it" % head},
 "base_commit": head}, open("/verif/seeded/%s/meta.json" % id, "w"), indent=1)
EOP
done
