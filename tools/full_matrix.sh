#!/bin/sh
# runs on changed trees must not overwrite the committed evidence of the unchanged tree
export VERIF_EVIDENCE=/verif/build/evidence-changed-tree
# tools/full_matrix.sh [ids...] : every seeded change x every claimed check (6 checks at a time) -> build/full_matrix.tsv
cd /verif
ids="$@"; [ -z "$ids" ] && ids=$(cd seeded && ls -d */ | tr -d /)
props=$(python3 -c "import json;print(' '.join(c['property_id'] for c in json.load(open('MANIFEST.json'))['checks']))")
mkdir -p build/fm
: > build/full_matrix.tsv
for id in $ids; do
  git -C /repo apply /verif/seeded/$id/patch.diff || { echo "$id	patch-does-not-apply" >> build/full_matrix.tsv; continue; }
  python3 -c "import sys; sys.path.insert(0,'vx'); import replay; replay.build()" >/dev/null 2>&1
  for p in $props; do echo $p; done | xargs -P 6 -I{} sh -c "./check {} > build/fm/$id.{}.out 2>&1; echo \$? > build/fm/$id.{}.rc"
  git -C /repo checkout -- .
  line="$id"
  for p in $props; do line="$line	$p=$(cat build/fm/$id.$p.rc)"; done
  echo "$line" >> build/full_matrix.tsv
done
git -C /repo status --short | head -3
