#!/usr/bin/env python3
"""tools/rebuild_tsv.py: build/full_matrix.tsv from build/fm/<seed>.<prop>.rc (one row per directory of seeded/)"""
import json, os
V = "/verif"
props = [c["property_id"] for c in json.load(open(os.path.join(V, "MANIFEST.json")))["checks"]]
rows = []
for s in sorted(d for d in os.listdir(os.path.join(V, "seeded")) if os.path.isdir(os.path.join(V, "seeded", d))):
    cells = []
    for p in props:
        f = os.path.join(V, "build", "fm", "%s.%s.rc" % (s, p))
        cells.append("%s=%s" % (p, open(f).read().strip() if os.path.exists(f) else "?"))
    rows.append(s + "\t" + "\t".join(cells))
open(os.path.join(V, "build", "full_matrix.tsv"), "w").write("\n".join(rows) + "\n")
print(len(rows), "rows")
