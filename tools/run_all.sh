#!/bin/sh
# run every claimed check on the current /repo tree and validate the evidence files
cd /verif
ids=$(python3 -c "import json;print(' '.join(c['property_id'] for c in json.load(open('MANIFEST.json'))['checks']))")
rc=0
for id in $ids; do
  ./check $id --tier ${1:-quick} | grep -v "^KNOWN" ; s=$?
done
python3-vt - <<'EOP'
import json,jsonschema,sys
m=json.load(open('/verif/MANIFEST.json'))
jsonschema.validate(m,json.load(open('/root/.vp/MANIFEST.schema.json')))
s=json.load(open('/root/.vp/EVIDENCE.schema.json'))
bad=0
for c in m['checks']:
    e=json.load(open('/verif/'+c['evidence_file']))
    jsonschema.validate(e,s)
    if e['coverage']['obligations']!=e['coverage']['discharged'] or e['violations']: print("BAD evidence",c['property_id']); bad=1
print("manifest+evidence valid" if not bad else "PROBLEMS")
EOP
