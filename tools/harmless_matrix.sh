#!/bin/bash
# runs on changed trees must not overwrite the committed evidence of the unchanged tree
export VERIF_EVIDENCE=/verif/build/evidence-changed-tree
# tools/harmless_matrix.sh : property-preserving edits (harmless/<id>/patch.diff) x every claimed check; none may report a VIOLATION
cd /verif
props=$(python3 -c "import json;print(' '.join(c['property_id'] for c in json.load(open('MANIFEST.json'))['checks']))")
mkdir -p build/hm
: > build/harmless_matrix.tsv
for id in ${@:-$(cd harmless && ls -d */ | tr -d /)}; do
  git -C /repo apply /verif/harmless/$id/patch.diff || { echo "$id	patch-does-not-apply" >> build/harmless_matrix.tsv; continue; }
  (cd /repo && CARGO_TARGET_DIR=/var/tmp/harm-target CARGO_NET_OFFLINE=true cargo test --offline --lib -q >/var/tmp/harm-$id.log 2>&1); tst=$?
  python3 -c "import sys; sys.path.insert(0,'vx'); import replay; replay.build()" >/dev/null 2>&1
  for p in $props; do echo $p; done | xargs -P 6 -I{} sh -c "./check {} > build/hm/$id.{}.out 2>&1; echo \$? > build/hm/$id.{}.rc"
  git -C /repo checkout -- .
  line="$id	libtests=$tst"
  for p in $props; do line="$line	$p=$(cat build/hm/$id.$p.rc)"; done
  echo "$line" >> build/harmless_matrix.tsv
done
git -C /repo status --short | head -3
cat build/harmless_matrix.tsv
