#!/bin/sh
# tools/snap_seed.sh <seed-id> <prop> [cases]: bounded search against a private snapshot of HEAD with the seeded change (does not touch /repo)
id=$1; prop=$2; cases=${3:-20000}
S=/var/tmp/repo-snap-$$; mkdir -p /var/tmp/vt
rm -rf $S; mkdir -p $S; git -C /repo archive HEAD | tar -x -C $S; cp /repo/Cargo.lock $S/ 2>/dev/null
(cd $S && patch -p1 -s < /verif/seeded/$id/patch.diff) || exit 3
VERIF_REPO=$S python3 - "$prop" "$cases" <<'EOP'
import sys, subprocess
sys.path.insert(0, "/verif/vx")
import replay
b, msg = replay.build()
if not b:
    print("no harness:", msg); sys.exit(2)
r = subprocess.run([b, "search", "--prop", sys.argv[1], "--cases", sys.argv[2], "--seed", "1", "--time-ms", "30000", "--out", "/var/tmp/vt/snap.case"], capture_output=True, text=True)
print(r.stdout[:500])
EOP
rm -rf $S
