#!/bin/sh
# tools/replay_seed.sh <seed-id> <prop> [cases] : apply a seeded change, run the bounded search of the real crate, undo
id=$1; prop=$2; cases=${3:-4000}
git -C /repo apply /verif/seeded/$id/patch.diff || exit 3
/verif/tools/replay_build.sh
git -C /repo checkout -- .
mkdir -p /verif/build/replay-cases
/verif/build/replay-target/debug/vx-replay search --prop $prop --cases $cases --seed 1 --time-ms 30000 --out /verif/build/replay-cases/$id.case | cut -c1-400
echo "exit=$?"
