"""Minimal Rust lexer + structural helpers used by the extractor (vx).

Nothing here understands Rust's grammar beyond tokens and balanced delimiters; every helper
either finds what it was asked for or raises Unsupported (-> exit 2, never an alarm).
"""
import re
from collections import namedtuple

Tok = namedtuple("Tok", "kind text start end")


class Unsupported(Exception):
    """construct outside the extractor's subset / lost anchor"""


_PUNCT3 = ["..=", "<<=", ">>=", "..."]
_PUNCT2 = ["::", "->", "=>", "==", "!=", "<=", ">=", "&&", "||", "+=", "-=", "*=", "/=", "%=", "^=", "&=", "|=", ".."]
_IDENT = re.compile(r"[A-Za-z_][A-Za-z0-9_]*")
_NUM = re.compile(r"[0-9][0-9A-Za-z_]*(\.[0-9][0-9A-Za-z_]*)?")


def lex(src, keep_comments=False):
    toks = []
    i, n = 0, len(src)
    while i < n:
        c = src[i]
        if c.isspace():
            i += 1
            continue
        if src.startswith("//", i):
            j = src.find("\n", i)
            j = n if j < 0 else j
            if keep_comments:
                toks.append(Tok("comment", src[i:j], i, j))
            i = j
            continue
        if src.startswith("/*", i):
            depth, j = 1, i + 2
            while j < n and depth:
                if src.startswith("/*", j):
                    depth += 1
                    j += 2
                elif src.startswith("*/", j):
                    depth -= 1
                    j += 2
                else:
                    j += 1
            if keep_comments:
                toks.append(Tok("comment", src[i:j], i, j))
            i = j
            continue
        # raw strings / byte strings
        m = re.match(r'b?r(#*)"', src[i:])
        if m:
            hashes = m.group(1)
            close = '"' + hashes
            j = src.find(close, i + m.end())
            if j < 0:
                raise Unsupported("unterminated raw string")
            j += len(close)
            toks.append(Tok("str", src[i:j], i, j))
            i = j
            continue
        if c == '"' or (c == "b" and src.startswith('b"', i)):
            j = i + (2 if c == "b" else 1)
            while j < n and src[j] != '"':
                j += 2 if src[j] == "\\" else 1
            j += 1
            toks.append(Tok("str", src[i:j], i, j))
            i = j
            continue
        if c == "'":
            # char literal or lifetime
            m = re.match(r"'(\\.[^']*|[^'\\])'", src[i:])
            if m:
                toks.append(Tok("char", m.group(0), i, i + m.end()))
                i += m.end()
                continue
            m = re.match(r"'[A-Za-z_][A-Za-z0-9_]*", src[i:])
            if m:
                toks.append(Tok("lifetime", m.group(0), i, i + m.end()))
                i += m.end()
                continue
            raise Unsupported("bad quote at %d" % i)
        m = _IDENT.match(src, i)
        if m:
            toks.append(Tok("ident", m.group(0), i, m.end()))
            i = m.end()
            continue
        m = _NUM.match(src, i)
        if m:
            # do not swallow a range `0..n` as a float
            t = m.group(0)
            if ".." in src[i:i + len(t) + 1] and "." in t:
                t = t.split(".")[0]
            elif "." in t and src[i + len(t.split(".")[0]) + 1:i + len(t.split(".")[0]) + 2].isalpha():
                # `1.max(..)` style method call on literal
                t = t.split(".")[0]
            toks.append(Tok("num", t, i, i + len(t)))
            i += len(t)
            continue
        for p in _PUNCT3:
            if src.startswith(p, i):
                toks.append(Tok("punct", p, i, i + 3))
                i += 3
                break
        else:
            for p in _PUNCT2:
                if src.startswith(p, i):
                    toks.append(Tok("punct", p, i, i + 2))
                    i += 2
                    break
            else:
                toks.append(Tok("punct", c, i, i + 1))
                i += 1
    return toks


OPEN = {"(": ")", "[": "]", "{": "}"}
CLOSE = {v: k for k, v in OPEN.items()}


def match_map(toks):
    """index of matching delimiter for every ( [ { ) ] } token"""
    st, mm = [], {}
    for i, t in enumerate(toks):
        if t.kind != "punct":
            continue
        if t.text in OPEN:
            st.append(i)
        elif t.text in CLOSE:
            if not st or toks[st[-1]].text != CLOSE[t.text]:
                raise Unsupported("unbalanced delimiter %r at %d" % (t.text, t.start))
            j = st.pop()
            mm[i] = j
            mm[j] = i
    if st:
        raise Unsupported("unclosed delimiter at %d" % toks[st[-1]].start)
    return mm


def strip_comments(src):
    """remove comments, keep everything else (incl. whitespace) verbatim"""
    out, last = [], 0
    for t in lex(src, keep_comments=True):
        if t.kind == "comment":
            out.append(src[last:t.start])
            last = t.end
    out.append(src[last:])
    return "".join(out)


def angle_close(toks, i):
    """toks[i] is '<' opening a generic list; return index of its matching '>'"""
    depth = 0
    j = i
    mm = None
    while j < len(toks):
        t = toks[j]
        if t.kind == "punct":
            if t.text == "<":
                depth += 1
            elif t.text == ">":
                depth -= 1
                if depth == 0:
                    return j
            elif t.text in ("(", "[", "{"):
                if mm is None:
                    mm = match_map(toks)
                j = mm[j]
            elif t.text in (";",):
                break
        j += 1
    raise Unsupported("unbalanced <> at %d" % toks[i].start)


class Item:
    """a top-level / impl-level / trait-level item located in a source file"""

    def __init__(self, kind, name, owner, attrs, start, end, src, header_end=None, body=None, path=None):
        self.kind, self.name, self.owner, self.attrs = kind, name, owner, attrs
        self.start, self.end, self.src = start, end, src
        self.header_end = header_end  # offset of '{' of body (fn / impl / trait) or None
        self.body = body  # (open_offset, close_offset) of the braces
        self.path = path

    @property
    def text(self):
        return self.src[self.start:self.end]

    @property
    def sig(self):
        return self.src[self.start:self.header_end] if self.header_end is not None else self.text

    @property
    def body_text(self):
        return self.src[self.body[0]:self.body[1] + 1]

    def line_span(self):
        a = self.src.count("\n", 0, self.start) + 1
        b = self.src.count("\n", 0, self.end) + 1
        return a, b

    def __repr__(self):
        return "Item(%s %s::%s l.%d-%d)" % ((self.kind, self.owner, self.name) + self.line_span())


_ITEM_KW = {"fn", "struct", "enum", "trait", "impl", "type", "const", "static", "mod", "use", "macro_rules", "unsafe", "extern"}
_QUAL = {"pub", "unsafe", "async", "const", "extern", "default"}


def scan_items(src, path=None):
    """Return a flat list of Items: top-level ones, and fn/type/const items inside impl / trait / mod blocks
    (owner = normalised header text of the enclosing impl/trait, or 'mod X')."""
    toks = lex(src)
    mm = match_map(toks)
    items = []

    def scan(lo, hi, owner, owner_attrs):
        i = lo
        while i < hi:
            # attributes
            attrs = []
            start_i = i
            while i < hi and toks[i].text == "#":
                j = i + 1
                if toks[j].text == "!":
                    j += 1
                if toks[j].text != "[":
                    raise Unsupported("attr")
                k = mm[j]
                attrs.append(src[toks[i].start:toks[k].end])
                i = k + 1
            if i >= hi:
                break
            first = i
            # qualifiers
            while i < hi and toks[i].kind == "ident" and toks[i].text in _QUAL and not (
                    toks[i].text == "const" and toks[i + 1].kind == "ident" and toks[i + 1].text not in ("fn", "unsafe", "extern")) and not (
                    toks[i].text == "unsafe" and toks[i + 1].text in ("impl", "trait")):
                if toks[i].text == "pub" and toks[i + 1].text == "(":
                    i = mm[i + 1] + 1
                elif toks[i].text == "extern" and toks[i + 1].kind == "str":
                    i += 2
                else:
                    i += 1
            if toks[i].text == "unsafe" and toks[i + 1].text in ("impl", "trait"):
                i += 1
            t = toks[i]
            kw = t.text
            start = toks[start_i].start
            if kw == "crate" and i > 0 and toks[i - 1].text == "extern":
                j = i
                while toks[j].text != ";":
                    j += 1
                i = j + 1
                continue
            if kw == "fn":
                name = toks[i + 1].text
                # find body '{' or ';' at depth 0 (skipping () [] and <>)
                j = i + 2
                while True:
                    tt = toks[j]
                    if tt.text in ("(", "["):
                        j = mm[j] + 1
                        continue
                    if tt.text == "{":
                        k = mm[j]
                        items.append(Item("fn", name, owner, owner_attrs + attrs, start, toks[k].end, src,
                                          header_end=tt.start, body=(tt.start, toks[k].start), path=path))
                        i = k + 1
                        break
                    if tt.text == ";":
                        items.append(Item("fn", name, owner, owner_attrs + attrs, start, tt.end, src, path=path))
                        i = j + 1
                        break
                    j += 1
                continue
            if kw in ("impl", "trait", "mod"):
                j = i + 1
                while toks[j].text not in ("{", ";"):
                    if toks[j].text in ("(", "["):
                        j = mm[j]
                    j += 1
                if toks[j].text == ";":
                    i = j + 1
                    continue
                k = mm[j]
                header = " ".join(x.text for x in toks[i:j])
                name = toks[i + 1].text if kw != "impl" else header
                it = Item(kw, name, owner, owner_attrs + attrs, start, toks[k].end, src, header_end=toks[j].start,
                          body=(toks[j].start, toks[k].start), path=path)
                items.append(it)
                scan(j + 1, k, header if kw != "mod" else "mod " + name, owner_attrs + attrs)
                i = k + 1
                continue
            if kw in ("struct", "enum", "union"):
                name = toks[i + 1].text
                j = i + 2
                while toks[j].text not in ("{", ";", "("):
                    if toks[j].text == "<":
                        j = angle_close(toks, j)
                    j += 1
                if toks[j].text == "(":
                    j = mm[j] + 1
                    while toks[j].text != ";":
                        j += 1
                    end = toks[j].end
                elif toks[j].text == "{":
                    j = mm[j]
                    end = toks[j].end
                else:
                    end = toks[j].end
                items.append(Item(kw, name, owner, owner_attrs + attrs, start, end, src, path=path))
                i = j + 1
                continue
            if kw in ("type", "const", "static", "use"):
                name = toks[i + 1].text if kw != "use" else "use"
                j = i
                while toks[j].text != ";":
                    if toks[j].text in OPEN:
                        j = mm[j]
                    j += 1
                items.append(Item(kw, name, owner, owner_attrs + attrs, start, toks[j].end, src, path=path))
                i = j + 1
                continue
            if kw == "macro_rules":
                j = i
                while toks[j].text not in OPEN:
                    j += 1
                k = mm[j]
                name = toks[i + 2].text
                end = toks[k].end
                if k + 1 < len(toks) and toks[k + 1].text == ";":
                    end = toks[k + 1].end
                    k += 1
                items.append(Item("macro", name, owner, owner_attrs + attrs, start, end, src, path=path))
                i = k + 1
                continue
            # macro invocation item like `impl_data!(A, B);`
            if t.kind == "ident" and toks[i + 1].text == "!":
                j = i + 2
                k = mm[j]
                end = toks[k].end
                if k + 1 < len(toks) and toks[k + 1].text == ";":
                    k += 1
                    end = toks[k].end
                items.append(Item("macrocall", t.text, owner, owner_attrs + attrs, start, end, src, path=path))
                i = k + 1
                continue
            raise Unsupported("cannot classify item at %s offset %d: %r" % (path, t.start, src[t.start:t.start + 40]))

    scan(0, len(toks), None, [])
    return items


def norm(s):
    return " ".join(t.text for t in lex(s))


def find_item(items, kind, name, owner_re=None, cfg=None, nth=0):
    """owner_re: regex searched in the normalised owner header (None = top level)."""
    out = []
    for it in items:
        if it.kind != kind or it.name != name:
            continue
        if owner_re is None:
            if it.owner is not None and not it.owner.startswith("mod "):
                continue
        else:
            if it.owner is None or not re.search(owner_re, it.owner):
                continue
        if it.owner is not None and it.owner.startswith("mod tests"):
            continue
        if any("cfg(test)" in norm(a).replace(" ", "") for a in it.attrs):
            continue
        if cfg is not None and not cfg_ok(it.attrs, cfg):
            continue
        out.append(it)
    if len(out) <= nth:
        raise Unsupported("lost anchor: %s %s in %r (found %d)" % (kind, name, owner_re, len(out)))
    if len(out) > nth + 1 and nth == 0:
        raise Unsupported("ambiguous anchor: %s %s in %r (%d candidates)" % (kind, name, owner_re, len(out)))
    return out[nth]


def cfg_ok(attrs, features):
    """evaluate #[cfg(feature = "x")] / #[cfg(not(feature = "x"))] attributes against a feature set"""
    for a in attrs:
        s = norm(a).replace(" ", "")
        m = re.match(r'#\[cfg\((.*)\)\]$', s)
        if not m:
            continue
        e = m.group(1)
        if not eval_cfg(e, features):
            return False
    return True


def eval_cfg(e, features):
    m = re.match(r'feature="([^"]+)"$', e)
    if m:
        return m.group(1) in features
    m = re.match(r'not\((.*)\)$', e)
    if m:
        return not eval_cfg(m.group(1), features)
    if e == "test":
        return False
    if e == "debug_assertions":
        return "debug_assertions" in features
    m = re.match(r'(all|any)\((.*)\)$', e)
    if m:
        parts = split_top(m.group(2), ",")
        vals = [eval_cfg(p, features) for p in parts if p]
        return all(vals) if m.group(1) == "all" else any(vals)
    raise Unsupported("cfg expression %r" % e)


def split_top(s, sep):
    """split s at top-level occurrences of sep (not inside brackets / angle brackets are NOT tracked)"""
    out, depth, cur = [], 0, []
    for ch in s:
        if ch in "([{":
            depth += 1
        elif ch in ")]}":
            depth -= 1
        if ch == sep and depth == 0:
            out.append("".join(cur))
            cur = []
        else:
            cur.append(ch)
    out.append("".join(cur))
    return out
