"""property -> verification runs (unit, active clause groups, mode, features) and what the property owns"""

U1 = "u1_sched"
U2 = "u2_sysdata"
U3 = "u3_world"
U4 = "u4_meta"
U5 = "u5_parseq"
U6 = "u6_async"
DBG = ("parallel", "shred-derive", "debug_assertions")
STAR_OWNERS = ("C04",)   # the shared shape / safety clauses (`*`) belong to these; for other properties a failing `*` clause is "undecided"

PROPS = {
    "C01": dict(runs=[dict(unit=U1, groups=["iso"])], own_groups=["iso"],
                undecided_sentences=["interleavings / timing: 'is in that window too' is decided for the layout only; the fork-join execution discipline (stages in order, groups via rayon, members in order) is trusted"]),
    "C02": dict(runs=[dict(unit=U1, groups=["dep"])], own_groups=["dep"],
                undecided_sentences=["'A's run has completely ended before B begins to fetch' in time: layout order is proved, execution discipline trusted"]),
    "C03": dict(runs=[dict(unit=U1, groups=["bar"])], own_groups=["bar"],
                undecided_sentences=["'has finished before ... begins' in time (trusted execution discipline)"]),
    "C08": dict(runs=[dict(unit=U3, groups=["brw"], mode="P"), dict(unit=U4, groups=["brw"], mode="P")], own_groups=["brw"],
                undecided_sentences=["the three-state discipline of one cell, its thread-safety and release on drop / unwind are atomic_refcell's and Rust's drop glue (dependency / language, trusted)",
                                     "multi-threaded histories are not explored"]),
    "C09": dict(runs=[dict(unit=U3, groups=["typed"], mode="P"), dict(unit=U3, groups=["typed"], mode="T")], own_groups=["typed", "P", "T"], owns_shared=True,
                undecided_sentences=["'every value is dropped exactly once': ownership / drop glue (trusted)", "entry / or_insert(_with) / get_mut(_raw): std hash_map::Entry and HashMap::get_mut have no vstd model (not under contract)",
                                     "'leaves the world unchanged' on a mismatching call is decided as 'the call does not return' plus the guard being the first statement of every id-taking function (mode P cannot observe state at a panic)"]),
    "C15": dict(runs=[dict(unit=U6, groups=["hand"], mode="T")], own_groups=["hand", "T"], owns_shared=True,
                undecided_sentences=["anything about real time: 'while one is running, running() reports true' is decided as running() == (the state has not been taken back); that holding the state (Inner) is incompatible with the job still using it is Rust ownership; std::sync::mpsc and rayon::spawn are trusted (the job's closure is called exactly once; a channel is used once)",
                                     "AsyncDispatcher::setup and the deprecated res / mut_res are not under contract"]),
    "C16": dict(runs=[dict(unit=U5, groups=["tree"], mode="P", features=DBG), dict(unit=U5, groups=["tree"], mode="T", features=DBG), dict(unit=U5, groups=["tree"], mode="T")],
                own_groups=["tree", "P", "T"], owns_shared=True,
                fail_undecided="the node no longer satisfies the reference contract (which fixes the ORDER in which leaves are reported / set up; the property demands the union and every leaf once, not an order)",
                undecided_sentences=["'every leaf of an earlier child finishes before any leaf of a later child starts' in time: Seq::run is two consecutive calls (program order of the verifier's sequential semantics); 'children of a par node may overlap': rayon (rule R11 treats join as calling both closures once)",
                                     "par! / seq! macros are thin wrappers over new / with (not expanded here)"]),
    "C17": dict(runs=[dict(unit=U4, groups=["meta"], mode="P")], own_groups=["meta", "P"], owns_shared=True,
                undecided_sentences=["'methods of the concrete type': the vtable attached is the one whose function was built for the resource's own type id (proved); that this vtable dispatches to the concrete type's methods is rustc's unsizing coercion inside the user's CastFrom impl (unsafe, trusted)",
                                     "the `nightly` feature variant is not extracted", "'in first-registration order and once each' across successive next() calls is the per-call contract iterated (no history lemma is proved)"]),
    "C10": dict(runs=[dict(unit=U1, groups=["fit", "wid"])], own_groups=["fit", "wid"], undecided_sentences=[]),
    "C04": dict(runs=[dict(unit=U1, groups=["once"]), dict(unit=U6, groups=["once", "aonce"], mode="T")], own_groups=["once", "aonce"], owns_shared=True,
                undecided_sentences=["multiplicity on the parallel path rests on the assumed contract of rayon (rule R11: each closure called exactly once)"]),
    "C12": dict(runs=[dict(unit=U1, groups=["tl"]), dict(unit=U6, groups=["tlw"], mode="T")], own_groups=["tl", "tlw"],
                undecided_sentences=["'on the thread that called dispatch, never on a pool worker' (thread identity) is not a contract over sequential code", "'after every other system has finished' in time: program order of inner.dispatch then the thread-local loop is proved, rayon's fork-join is trusted"]),
    "C06": dict(runs=[dict(unit=U2, groups=["sd"], mode="P")], own_groups=["sd", "P"], owns_shared=True,
                fail_undecided="the implementation no longer satisfies the reference contract (which fixes the ORDER of the reported ids and of the members' setups; the property speaks of the sets and of the composition)",
                undecided_sentences=["'all of it is released when the value is dropped': Rust drop glue and atomic_refcell's Drop (trusted); the contract shows no impl stores a guard anywhere but in the returned value",
                                     "derive macro: the generator (a proc-macro over all token streams) is out of reach; its *output* is verified for the sample family in units/u2_sysdata/derive_samples.rs (bounded: sampled programs)"]),
    "C07": dict(runs=[dict(unit=U1, groups=["bat"])], own_groups=["bat"],
                undecided_sentences=["'no outside system ... ever overlaps the batch' in time (trusted execution discipline); inner thread-local systems are outside the union (known finding KF1, reported under C12)"]),
    "C18": dict(runs=[dict(unit=U1, groups=["tot"], mode="T"), dict(unit=U1, groups=["grd"], mode="P")], own_groups=["tot", "grd", "T", "P"], owns_shared="safety",
                undecided_sentences=["'with a message quoting the offending name': string formatting is outside Verus; only 'the call does not return' is decided"]),
    "C19": dict(runs=[dict(unit=U1, groups=["fun"], mode="T"), dict(unit=U1, groups=["fun"], mode="T", features=("shred-derive",))], own_groups=["fun"],
                fail_undecided="the code no longer equals the reference placement function (whether the new function is still deterministic and invariant is not decided by the proof)",
                undecided_sentences=["'in every process': the proof is about the function the code computes; nondeterminism of the platform below it (allocator, hasher seeds) is excluded because no placement decision reads it",
                                     "the renaming of *systems* is covered by construction (no spec function takes a name; ids are the registration counter), not by a separate lemma"]),
    "C20": dict(runs=[dict(unit=U1, groups=["plan"], mode="T")], own_groups=["plan"], owns_shared="safety",
                undecided_sentences=["the text itself: format strings and the sanitised / placeholder labels are uninterpreted (the label of a named system is sanitise(a name registered for that id), of an unnamed one sanitise(placeholder(id)))",
                                     "'at the position at which the built dispatcher really runs it': the printed table is the id table; that it has the shape of the executed list is the lock-step invariant (C04) and build() returning that list"]),
    "C13": dict(runs=[dict(unit=U1, groups=["hooks"]), dict(unit=U6, groups=["ahooks", "hooks"], mode="T")], own_groups=["hooks", "ahooks"],
                fail_undecided="the setup / dispose fan-out no longer produces the reference log (the contracts fix an order of the fan-out - stages, groups, then thread-local - which the property does not demand: it demands every system exactly once)", undecided_sentences=[]),
}

TRUSTED = {
    "common": [
        "Verus 0.2026.09.13 + Z3 (soundness of the verifier)",
        "rustc type / borrow checking of /repo (lifetimes, Send, ownership, drop glue)",
        "extractor rules of DESIGN.md 3.2 (slicing, lifetime erasure, type substitution table, lowering rules R1-R20; impl headers are unit text, their associated types are compared with the source)",
        "smallvec / arrayvec behave as sequences (ArrayVec::push panics exactly when full)",
        "slice::sort and Vec::dedup keep the set of elements",
        "System::accessor / running_time are stable (same answer on every call), as the crate documents",
        "It::len: the lengths of two live slices of non-zero-sized elements do not sum beyond usize::MAX",
    ],
}


# thorough tier: the scheduler properties are verified for both feature sets (`parallel` on and off)
NOPAR = ("shred-derive",)
for _pid in ("C01", "C02", "C03", "C04", "C07", "C10", "C12", "C13", "C18", "C20"):
    _r = PROPS[_pid]["runs"]
    PROPS[_pid]["runs_thorough"] = _r + [dict(x, features=NOPAR) for x in _r if x["unit"] == U1]
