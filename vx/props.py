"""property -> verification runs (unit, active clause groups, mode, features) and what the property owns"""

U1 = "u1_sched"
STAR_OWNERS = ("C04", "C18")   # the shared shape / safety clauses (`*`) belong to these; for other properties a failing `*` clause is "undecided"

PROPS = {
    "C01": dict(runs=[dict(unit=U1, groups=["iso"])], own_groups=["iso"],
                undecided_sentences=["interleavings / timing: 'is in that window too' is decided for the layout only; the fork-join execution discipline (stages in order, groups via rayon, members in order) is trusted"]),
    "C02": dict(runs=[dict(unit=U1, groups=["dep"])], own_groups=["dep"],
                undecided_sentences=["'A's run has completely ended before B begins to fetch' in time: layout order is proved, execution discipline trusted"]),
    "C03": dict(runs=[dict(unit=U1, groups=["bar"])], own_groups=["bar"],
                undecided_sentences=["'has finished before ... begins' in time (trusted execution discipline)"]),
    "C10": dict(runs=[dict(unit=U1, groups=["fit"])], own_groups=["fit"], undecided_sentences=[]),
}

TRUSTED = {
    "common": [
        "Verus 0.2026.09.13 + Z3 (soundness of the verifier)",
        "rustc type / borrow checking of /repo (lifetimes, Send, ownership, drop glue)",
        "extractor rules of DESIGN.md 3.2 (slicing, lifetime erasure, type substitution table, lowering rules R1-R12)",
        "smallvec / arrayvec behave as sequences (ArrayVec::push panics exactly when full)",
        "slice::sort and Vec::dedup keep the set of elements",
        "System::accessor / running_time are stable (same answer on every call), as the crate documents",
        "It::len: the lengths of two live slices of non-zero-sized elements do not sum beyond usize::MAX",
    ],
}
