"""Bounded search / replay against the REAL crate (replay/): counterexample finder for rejected obligations and the
labelled-bounded stand-in when the proof is undecided.  Never counted as proof."""
import fcntl
import os
import re
import shutil
import subprocess
import time

from gen import tree_hash

VERIF = os.path.dirname(os.path.dirname(os.path.abspath(__file__)))
REPO = os.environ.get("VERIF_REPO", "/repo")
BUILD = os.path.join(VERIF, "build")
SCRATCH = "/var/tmp/vx-replay-src"

BOUNDED = ("C01", "C02", "C03", "C04", "C06", "C07", "C08", "C09", "C10", "C12", "C13", "C15", "C16", "C17", "C18", "C19", "C20")

_SEQ = ("seeded random registration sequences built through the public DispatcherBuilder API of a scratch copy of /repo's working tree "
        "(three read-only shape probes appended): <= 60 top-level registrations, <= 12 resource ids over 4 types, dependency lists <= 4 names, "
        "running-time hints 1..5, barriers, thread-local systems (also zero-sized), batches nested <= 2 deep with 0..2 inner dispatches "
        "(hand-written and MultiDispatcher controllers), nested dispatchers as thread-local systems, pools of 1/2/3/8 threads; "
        "ordering/overlap findings are confirmed by a real dispatch_par in which the two systems wait for each other")
_WORLD = ("seeded random histories on a real World: <= 12 operations (insert / remove / entry / get_mut / has_value, typed and by id, with mismatching "
          "type arguments) over 3 resource types x dynamic ids {0,1,7} with drop counters; borrow phases of <= 7 steps with live guards, clones, writes "
          "through exclusive guards, Option system data, presence queries under live guards, typed fetches issued by a destructor while a panic unwinds")
_META = ("seeded random histories on a real MetaTable<dyn Probe>: <= 15 operations (register with repeats / insert / remove) over 6 (a third of the histories: 12, <= 36 operations) types of different size, "
         "get / get_mut / iter / iter_mut checked after every step, also under live shared / exclusive guards and held items, address-changing CastFrom impls")
BOUNDS = {
    "C06": "a generated family of 103 system-data types (tuple arities 1..26 with every member kind at every position, nestings to depth 3, repeated resources, "
           "user SetupHandler members, members that cannot be satisfied together, derived named / tuple / generic / nested structs) x seeded presence masks over 26 resource types",
    "C08": _WORLD + "; every third case: " + _META,
    "C09": _WORLD,
    "C15": "seeded call sequences (<= 8 of dispatch / running / wait / wait_without_tl / world / world_mut) on a real AsyncDispatcher over plans of <= 5 registrations; "
           "systems stay inside run until a gate opens (<= 40 ms); a thread-local system may be armed to panic inside one wait(), which the caller catches before going on; setup() calls; a quarter of the sequences that poll running() hold the systems 250 ms",
    "C16": "seeded random Par/Seq trees (depth <= 5, fan-out <= 4, 6 resource ids, zero-sized leaves) built through the real Par::new/with and Seq::new/with, "
           "dispatched three times by a real ParSeq (once from inside the pool)",
    "C17": _META,
    "C01": _SEQ + "; in a share of the cases ordinary systems take their data from shred's own SystemData types over static resources (Option / Expect forms, "
           "tuples, a derived and a derived generic bundle), so what the scheduler is told is shred's own reads() / writes()",
    "C04": _SEQ + "; every 8th case: a call sequence (<= 8 calls) on a real AsyncDispatcher, run counts only (k dispatches -> k runs, one thread-local run per wait)",
    "C19": _SEQ + "; each case is rebuilt after renaming, naming / un-naming, injective resource relabelling, permuting declared lists, and on workers of "
           "1- and 3-thread rayon pools, and with every dependency list reversed / rotated; plans (and the printed text of two builds) compared",
}
BOUND_TEXT = _SEQ


def bound_text(pid):
    return BOUNDS.get(pid, _SEQ)


def _bin_for_tree():
    key = tree_hash([os.path.join(REPO, "src"), os.path.join(REPO, "shred-derive", "src"), os.path.join(REPO, "Cargo.toml"),
                     os.path.join(VERIF, "replay", "src"), os.path.join(VERIF, "replay", "probe"), os.path.join(VERIF, "replay", "Cargo.toml")])
    return os.path.join(BUILD, "replay-bin", key, "vx-replay")


def build():
    """returns (binary path or None, message).  Built from /repo's current working tree; cached per tree hash."""
    binp = _bin_for_tree()
    if os.path.exists(binp):
        return binp, "cached"
    os.makedirs(BUILD, exist_ok=True)
    with open(os.path.join(BUILD, "replay.lock"), "w") as lk:
        fcntl.flock(lk, fcntl.LOCK_EX)
        if os.path.exists(binp):
            return binp, "cached"
        shutil.rmtree(SCRATCH, ignore_errors=True)
        try:
            os.makedirs(SCRATCH)
            subprocess.run(["rsync", "-a", "--exclude", "target", "--exclude", ".git", REPO + "/", SCRATCH + "/shred/"], check=True)
            for f in ("stage", "send_dispatcher", "dispatcher"):
                tgt = os.path.join(SCRATCH, "shred", "src", "dispatch", f + ".rs")
                if not os.path.exists(tgt):
                    return None, "probe target src/dispatch/%s.rs does not exist" % f
                with open(tgt, "a") as o:
                    o.write(open(os.path.join(VERIF, "replay", "probe", f + ".rs.append")).read())
            subprocess.run(["rsync", "-a", "--exclude", "target", os.path.join(VERIF, "replay") + "/", SCRATCH + "/harness/"], check=True)
            # cargo decides freshness of path dependencies by mtime: a copy whose files are OLDER than the last build (a reverted
            # change, a checkout) would silently reuse stale artefacts -> give every copied source file the current time
            now = time.time()
            for d, _, fs in os.walk(SCRATCH):
                for f in fs:
                    if f.endswith(".rs") or f.endswith(".toml"):
                        os.utime(os.path.join(d, f), (now, now))
            if os.path.exists(os.path.join(REPO, "Cargo.lock")):
                shutil.copy(os.path.join(REPO, "Cargo.lock"), os.path.join(SCRATCH, "harness", "Cargo.lock"))
            env = dict(os.environ, CARGO_TARGET_DIR=os.path.join(BUILD, "replay-target"), CARGO_NET_OFFLINE="true")
            p = subprocess.run(["cargo", "build", "--offline"], cwd=os.path.join(SCRATCH, "harness"), env=env, stdout=subprocess.PIPE, stderr=subprocess.STDOUT, text=True)
            if p.returncode != 0:
                errs = [l for l in p.stdout.split("\n") if l.startswith("error")]
                return None, "the harness does not build against this tree: %s" % "; ".join(errs[:3])
            os.makedirs(os.path.dirname(binp), exist_ok=True)
            shutil.copy(os.path.join(BUILD, "replay-target", "debug", "vx-replay"), binp)
            # keep only the three most recent cached binaries
            root = os.path.join(BUILD, "replay-bin")
            ds = sorted((os.path.getmtime(os.path.join(root, d)), d) for d in os.listdir(root))
            for _, d in ds[:-3]:
                shutil.rmtree(os.path.join(root, d), ignore_errors=True)
            return binp, "built"
        finally:
            shutil.rmtree(SCRATCH, ignore_errors=True)


def search(pid, cases, seed, time_ms, out):
    """-> dict(available, found, why, explored, skipped, distinct, samples, file, wall, note)"""
    t0 = time.time()
    if pid not in BOUNDED:
        return dict(available=False, note="no bounded oracle for %s" % pid)
    binp, msg = build()
    if not binp:
        return dict(available=False, note=msg)
    os.makedirs(os.path.dirname(out), exist_ok=True)
    for f in (out, out + ".current"):
        if os.path.exists(f):
            os.remove(f)
    try:
        p = subprocess.run([binp, "search", "--prop", pid, "--cases", str(cases), "--seed", str(seed), "--time-ms", str(time_ms), "--out", out],
                           stdout=subprocess.PIPE, stderr=subprocess.PIPE, text=True, timeout=time_ms / 1000.0 + 120)
    except subprocess.TimeoutExpired:
        return dict(available=False, note="bounded search timed out")
    txt = p.stdout
    m = re.search(r"explored=(\d+) skipped=(\d+)(?: distinct_nontrivial=(\d+))?", txt)
    res = dict(available=True, found=False, explored=int(m.group(1)) if m else 0, skipped=int(m.group(2)) if m else 0,
               distinct=int(m.group(3)) if m and m.group(3) else 0, samples=[l[7:] for l in txt.split("\n") if l.startswith("SAMPLE ")],
               wall=time.time() - t0, cmd="vx-replay search --prop %s --cases %d --seed %d --time-ms %d" % (pid, cases, seed, time_ms), build=msg)
    if p.returncode == 1 and os.path.exists(out):
        f = re.search(r"^FAIL (.*)$", txt, re.M)
        res.update(found=True, why=f.group(1) if f else "?", file=out)
    elif p.returncode < 0 or p.returncode >= 128:
        # the process that runs the real crate was killed by a signal (segmentation fault, abort): under safe use of the public
        # API that is a memory-safety violation of the crate; the case being executed was written to <out>.current beforehand
        cur = out + ".current"
        sig = -p.returncode if p.returncode < 0 else p.returncode - 128
        if os.path.exists(cur):
            body = open(cur).read()
            why = "the process executing this case against the real crate was killed by signal %d (memory-safety violation / abort under safe use of the public API)" % sig
            open(out, "w").write("# property=%s\n# found-by=bounded search of the real crate (the harness process crashed)\n# failure: %s\n%s" % (pid, why, body))
            res.update(found=True, why=why, file=out)
        else:
            res.update(available=False, note="harness killed by signal %d, no case recorded" % sig)
    elif p.returncode != 0:
        res.update(available=False, note="harness exited %d: %s" % (p.returncode, (p.stderr or txt)[-300:]))
    return res


def replay(pid, path):
    if not os.path.exists(path):
        print("replay: no such file: %s" % path)
        return 2
    binp, msg = build()
    if not binp:
        print("replay: %s" % msg)
        return 2
    p = subprocess.run([binp, "replay", "--prop", pid, "--file", path], stdout=subprocess.PIPE, stderr=subprocess.PIPE, text=True)
    print(open(path).read().rstrip())
    if p.returncode < 0 or p.returncode >= 128:
        print("replay against the crate built from %s: the process was killed by signal %d (the case still fails)" % (REPO, -p.returncode if p.returncode < 0 else p.returncode - 128))
        return 1
    print("replay against the crate built from %s: %s" % (REPO, p.stdout.strip()))
    return p.returncode
