#!/usr/bin/env python3
"""./check <Cxx> [--tier quick|thorough] [--replay FILE]

Regenerates the Verus input of the units a property needs from /repo's *current* sources, runs Verus, maps every
reported error to a named obligation, writes evidence/<id>.json.

exit 0: every obligation of the property discharged
exit 1: VIOLATION property=<id> replay=<path>      (an obligation of this property fails with a semantic reason)
exit 2: undecided (lost anchor, construct outside the extractor's subset, resource limit, tool failure) -- never an alarm
"""
import argparse
import hashlib
import json
import os
import re
import subprocess
import sys
import time

HERE = os.path.dirname(os.path.abspath(__file__))
VERIF = os.path.dirname(HERE)
sys.path.insert(0, HERE)
import gen  # noqa: E402
import replay  # noqa: E402
from rustlex import Unsupported  # noqa: E402
from props import PROPS, STAR_OWNERS, TRUSTED  # noqa: E402

BUILD = os.environ.get("VERIF_BUILD", os.path.join(VERIF, "build"))
BASELINE_FILE = os.path.join(VERIF, "units", "baseline_hashes.json")
try:
    BASELINE = json.load(open(BASELINE_FILE))
except Exception:
    BASELINE = {}
EVID = os.environ.get("VERIF_EVIDENCE", os.path.join(VERIF, "evidence"))
VERUS = os.environ.get("VERUS", "verus")


def sh(cmd, **kw):
    return subprocess.run(cmd, stdout=subprocess.PIPE, stderr=subprocess.PIPE, text=True, **kw)


def run_verus(path, rlimit=60, extra=(), multiple=25):
    cmd = [VERUS, path, "--output-json", "--time", "--error-format=json", "--multiple-errors", str(multiple), "--rlimit", str(rlimit),
           "--triggers-mode", "silent", "--num-threads", "8"] + list(extra)
    t0 = time.time()
    try:
        p = sh(cmd, cwd=os.path.dirname(path), timeout=1200)
    except subprocess.TimeoutExpired:
        return " ".join(cmd), 124, None, [], "verus timed out after 1200 s", time.time() - t0
    wall = time.time() - t0
    out = None
    try:
        out = json.loads(p.stdout)
    except Exception:
        pass
    diags = []
    for line in p.stderr.split("\n"):
        line = line.strip()
        if not line.startswith("{"):
            continue
        try:
            diags.append(json.loads(line))
        except Exception:
            pass
    return " ".join(cmd), p.returncode, out, diags, p.stderr, wall


SEMANTIC = ("precondition not met", "postcondition not satisfied", "precondition not satisfied", "invariant not satisfied", "assertion failed",
            "possible arithmetic underflow/overflow", "possible division by zero", "decreases not satisfied",
            "loop ensures not satisfied", "possible bit shift underflow/overflow", "recommendation not met",
            "cannot show invariant holds", "unable to prove", "not all errors may have been reported")


def classify(diags, meta):
    """-> (failures, tool_errors).  failure = dict(kind, item, part, label, origin, line, text)"""
    failures, tool = [], []
    for d in diags:
        if d.get("level") != "error":
            continue
        msg = d.get("message", "")
        if msg.startswith("aborting due to"):
            continue
        code = (d.get("code") or {}).get("code") if d.get("code") else None
        spans = d.get("spans", [])
        if code or not any(msg.startswith(s) or s in msg for s in SEMANTIC):
            if "Resource limit" in msg or "rlimit" in msg:
                tool.append(("rlimit", msg, spans))
            else:
                tool.append(("unsupported-or-type-error", msg, spans))
            continue
        # choose the span that names the clause: a secondary span labelled "failed ..." if present, else the primary
        clause_span = None
        prim = None
        for s in spans:
            if s.get("is_primary"):
                prim = s
            lab = (s.get("label") or "")
            if lab.startswith("failed"):
                clause_span = s
        cs = clause_span or prim or (spans[0] if spans else None)
        f = dict(kind=msg, line=None, item=None, part=None, label=None, origin=None, text=None, at_line=None, at_item=None)
        if cs:
            ln = cs["line_start"]
            m = meta[ln - 1] if 0 < ln <= len(meta) else {}
            f.update(line=ln, item=m.get("item"), part=m.get("part"), label=m.get("label"), origin=m.get("origin"),
                     text=(cs.get("text") or [{}])[0].get("text", "").strip()[:300])
        loc = None
        for sp in spans:
            if sp is not cs:
                loc = sp
        loc = loc or prim
        if loc:
            prim = loc
            ln = prim["line_start"]
            m = meta[ln - 1] if 0 < ln <= len(meta) else {}
            f.update(at_line=ln, at_item=m.get("item"), at_part=m.get("part"))
        failures.append(f)
    return failures, tool


def obligation_name(f):
    item = f.get("item") or f.get("at_item") or "?"
    part = f.get("part") or "?"
    label = f.get("label")
    kind = f["kind"].split(":")[0]
    name = "%s/%s" % (item, part)
    if label:
        name += "[%s]" % label
    if f.get("at_item") and f.get("at_item") != item:
        name = "%s/call[%s]/%s%s" % (f["at_item"], item, part, "[%s]" % label if label else "")
    return name, kind


def groups_of(f):
    lab = f.get("label")
    if not lab:
        return None
    g = lab.split(".")[0]
    return set(g.split(","))


def load_known():
    known, fixed = [], []
    p = os.path.join(VERIF, "KNOWN_FINDINGS.txt")
    if os.path.exists(p):
        for line in open(p):
            line = line.strip()
            m = re.match(r"known:\s*property=(\S+)\s+obligation=(\S+)\s*::\s*(.*)$", line)
            if m:
                known.append(dict(property=m.group(1), obligation=m.group(2), what=m.group(3)))
            m = re.match(r"fixed:\s*property=(\S+)\s+(\S+)\s+(.*)$", line)
            if m:
                fixed.append(dict(property=m.group(1), commit=m.group(2), what=m.group(3)))
    return known, fixed


def count_obligations(em):
    """one obligation per contract clause line emitted for an extracted function (labelled or not)"""
    names = []
    for m in em.meta:
        part = m.get("part") or ""
        if m.get("item") and (part in ("requires", "ensures") or (part.startswith("loop:") and "?/" not in part)) and m.get("origin"):
            names.append("%s/%s[%s]@%s" % (m["item"], part, m.get("label") or "", m["origin"]))
    return names


def check_property(pid, tier, seed):
    t0 = time.time()
    spec = PROPS[pid]
    os.makedirs(os.path.join(BUILD, pid), exist_ok=True)
    runs = spec["runs"] if tier == "quick" else spec.get("runs_thorough", spec["runs"])
    all_fail, undecided, evidence_runs = [], [], []
    n_obl = n_dis = 0
    obl_names = []
    cmds = []
    solver_ms = 0
    fn_under_contract = []
    assumed_items = []
    seen_hashes = {}
    for r in runs:
        unit_dir = os.path.join(VERIF, "units", r["unit"])
        active = set(r["groups"])
        feats = tuple(r.get("features", ("parallel", "shred-derive")))
        mode = r.get("mode", "T")
        tag = "%s_%s_%s_%s%s" % (r["unit"], "_".join(sorted(active)) or "shared", mode, "par" if "parallel" in feats else "nopar", "_dbg" if "debug_assertions" in feats else "")
        out = os.path.join(BUILD, pid, tag + ".rs")
        try:
            em, extraction, contracts, unit = gen.generate(unit_dir, features=feats, mode=mode, active=active)
        except Unsupported as e:
            undecided.append("%s: extractor: %s" % (tag, e))
            continue
        except Exception as e:  # extractor bug: undecided, not an alarm
            undecided.append("%s: extractor crashed: %r" % (tag, e))
            continue
        open(out, "w").write(em.text())
        json.dump(dict(extraction=extraction, linemap=em.meta), open(out + ".map.json", "w"))
        # functions whose extracted text differs from the committed baseline of the unchanged tree (units/baseline_hashes.json)
        for e in extraction:
            if not e.get("inactive"):
                seen_hashes[e["key"]] = e["sha256"]
        changed_items = set(k for k, h in seen_hashes.items() if BASELINE.get(k) not in (None, h))
        cmd, rc, vj, diags, stderr, wall = run_verus(out, rlimit=r.get("rlimit", 60))
        cmds.append(cmd)
        failures, tool = classify(diags, em.meta)
        names = count_obligations(em)
        verified = errors = 0
        if vj and "verification-results" in vj:
            verified = vj["verification-results"].get("verified", 0)
            errors = vj["verification-results"].get("errors", 0)
            try:
                solver_ms += vj["times-ms"]["smt"]["smt-run"]
            except Exception:
                pass
        if vj is None and not tool and not failures:
            undecided.append("%s: verus produced no result (rc=%s): %s" % (tag, rc, stderr[-400:]))
        for kind, msg, spans in tool:
            where = ""
            if spans:
                ln = spans[0]["line_start"]
                m = em.meta[ln - 1] if 0 < ln <= len(em.meta) else {}
                where = " at %s (%s)" % (m.get("item"), m.get("part"))
            undecided.append("%s: %s: %s%s" % (tag, kind, msg[:200], where))
        failed_names = set()
        # functions whose SHARED step / frame postcondition fails in this run: the function no longer does what every property's
        # own postcondition about it presupposes (e.g. a registration that is silently dropped), so for a property that does not
        # own the shared clauses those own postconditions are consequences, not evidence -> undecided, the stand-in decides
        broken_step = set()
        for f in failures:
            gs0 = groups_of(f)
            if (gs0 is None or "*" in gs0) and (f.get("kind") or "").startswith("postcondition not satisfied") and (f.get("part") or "").startswith("ensures"):
                broken_step.add(f.get("item"))
        # functions whose text differs from the unchanged tree AND in which a new implicit obligation (an index, machine arithmetic, the
        # precondition of a call) is not discharged: Verus reports it and goes on as if it held, so what it says about the rest of that
        # function is about a program whose meaning it does not vouch for
        tainted = set()
        for f in failures:
            si = f.get("at_item") or f.get("item")
            sp = f.get("at_part") or f.get("part") or ""
            if sp == "body" and si in changed_items and not f.get("label"):
                tainted.add(si)
        for f in failures:
            name, kind = obligation_name(f)
            f["obligation"] = name
            f["run"] = tag
            gs = groups_of(f)
            part = f.get("part") or ""
            own = set(spec["own_groups"])
            if part == "prelude" and gs is not None and f.get("at_item") and (f.get("at_part") or "") not in ("prelude", "lib", "gen"):
                # a trait-level clause of the prelude (group-conditional) fails for an extracted impl method
                f["obligation"] = name = "%s/trait-contract[%s]" % (f["at_item"], f.get("label"))
                f["attrib"] = "own" if (gs & own) else "other"
            elif part == "lib" or part == "prelude":
                # a lemma of the pure library or a prelude item fails: proof instability or subset limit, not the code
                if f.get("at_item") and (f.get("at_part") or "") not in ("prelude", "lib", "gen"):
                    # precondition of a prelude function violated by extracted code
                    txt = (f.get("text") or "")
                    if "#subset" in txt or "subset" in (f.get("origin") or ""):
                        undecided.append("%s: outside subset: %s" % (tag, name))
                        continue
                    f["attrib"] = "shared"
                else:
                    undecided.append("%s: library proof failed: %s (%s)" % (tag, name, kind))
                    continue
            elif gs is None or "*" in gs:
                f["attrib"] = "shared"
            elif gs & own:
                f["attrib"] = "own"
            else:
                f["attrib"] = "other"
            site_item = f.get("at_item") or f.get("item")
            site_part = f.get("at_part") or f.get("part") or ""
            if site_part == "body" and site_item in changed_items and not f.get("label"):
                # an implicit obligation (machine arithmetic, an index, the precondition of a call) inside a function whose text
                # differs from the unchanged tree: it is a NEW obligation of the changed code, not one that held before and now
                # fails; without the invariants that code would need, its failure says nothing -> undecided, the stand-in decides
                undecided.append("%s: new implicit obligation in the changed function %s is not discharged (%s): %s" % (tag, site_item, kind, name))
                continue
            if (part.startswith("hint") and "." not in (f.get("label") or "") and (f.get("item") in changed_items)):
                # an unlabelled hint is proof script written for the intermediate states of the ORIGINAL body (the labelled ones state a
                # property); when the body is different text its failure says the script no longer fits, not that the property fails
                undecided.append("%s: proof hint no longer fits the changed function %s (%s): %s" % (tag, f.get("item"), kind, name))
                continue
            if (f.get("at_item") and f.get("at_item") != f.get("item") and f.get("at_item") in changed_items and part.startswith("requires")
                    and kind.startswith("precondition not satisfied")):
                # the precondition of a verified callee is plumbing between two contracts written for the ORIGINAL caller; a caller whose
                # body is different text and no longer establishes it is a reason to doubt, not a demonstrated violation of the property
                undecided.append("%s: the changed function %s no longer establishes a callee's precondition (%s): %s" % (tag, f.get("at_item"), kind, name))
                continue
            if f.get("item") in tainted and part != "body":
                undecided.append("%s: %s fails in the changed function %s, which also has an undischarged new implicit obligation: not evidence (%s)" % (tag, name, f.get("item"), kind))
                continue
            if f["attrib"] == "shared" and spec.get("owns_shared") == "safety":
                # owns only panic-freedom: preconditions (of panic primitives, pushes, callees) and machine arithmetic
                if not (kind.startswith("precondition not satisfied") or "arithmetic" in kind or "division" in kind or "bit shift" in kind):
                    undecided.append("%s: shared obligation fails (not a panic-freedom obligation; owned by C04): %s (%s)" % (tag, name, kind))
                    continue
            elif f["attrib"] == "shared" and re.match(r"(StagesBuilder|DispatcherBuilder|Conflict)::|check_intersection$", f.get("item") or ""):
                # shape / frame / step contracts of the builder side serve every scheduler property alike; a change that breaks one of them
                # (ids handed out differently, a capacity guard, a table no longer pushed) violates some properties and not others:
                # no property reports it from the proof alone, each one's bounded stand-in decides it on the real crate
                undecided.append("%s: shared builder-side contract fails (decided per property by the bounded stand-in): %s (%s)" % (tag, name, kind))
                continue
            elif f["attrib"] == "shared" and pid not in STAR_OWNERS and not spec.get("owns_shared"):
                undecided.append("%s: shared obligation fails (owned by %s): %s (%s)" % (tag, ",".join(STAR_OWNERS), name, kind))
                continue
            if f["attrib"] == "other":
                continue
            if (f["attrib"] == "own" and f.get("item") in broken_step and pid not in STAR_OWNERS and spec.get("owns_shared") is not True
                    and kind.startswith("postcondition not satisfied")):
                undecided.append("%s: %s fails together with the shared step contract of the same function (owned by %s): consequence, not evidence (%s)" % (tag, name, ",".join(STAR_OWNERS), kind))
                continue
            if spec.get("fail_undecided"):
                # the obligation ties the code to one reference function; code that computes another function may still
                # satisfy the property, so a failure here is "undecided" and the bounded stand-in takes over
                undecided.append("%s: %s: %s (%s)" % (tag, spec["fail_undecided"], name, kind))
                continue
            all_fail.append(f)
            failed_names.add(name)
        n_obl += len(names) + verified + errors
        n_dis += len(names) + verified - len(failed_names) if not tool else 0
        obl_names += ["%s:%s" % (tag, n) for n in names]
        for e in extraction:
            if e.get("inactive"):
                continue
            e2 = dict(e)
            e2["run"] = tag
            fn_under_contract.append(e2)
        for it in unit["items"]:
            if it.get("assumed") and not it.get("_inactive"):
                assumed_items.append("%s: %s" % (it["key"], it["assumed"]))
        evidence_runs.append(dict(run=tag, file=os.path.relpath(out, VERIF), verified_items=verified, errors=errors, clause_obligations=len(names),
                                  wall_s=round(wall, 2), tool_errors=len(tool)))
    vac = []
    if tier == "thorough" and not undecided:
        for r in runs:
            v = vacuity_run(pid, r, os.path.join(BUILD, pid))
            v["run"] = "%s/%s/%s" % (r["unit"], ",".join(r["groups"]), r.get("mode", "T"))
            vac.append(v)
            if v["unreached"]:
                undecided.append("vacuity: %d probe(s) verified instead of failing (contradictory requires / invariant?): %s" % (len(v["unreached"]), v["unreached"][:5]))
    if os.environ.get("VERIF_WRITE_BASELINE") == "1":
        cur = dict(BASELINE)
        cur.update(seen_hashes)
        json.dump(cur, open(BASELINE_FILE, "w"), indent=0, sort_keys=True)
        BASELINE.update(seen_hashes)
    return dict(vacuity=vac, failures=all_fail, undecided=undecided, runs=evidence_runs, obligations=n_obl, discharged=max(n_dis, 0), obl_names=obl_names,
                cmds=cmds, solver_ms=solver_ms, functions=fn_under_contract, assumed=sorted(set(assumed_items)), wall=time.time() - t0)


def vacuity_run(pid, r, out_dir):
    """thorough tier: regenerate the run with an uninterpreted probe asserted at every function entry and loop-body entry of
    the verified functions; every probe must be REPORTED as failing.  -> dict(inserted, reached, unreached, note)"""
    unit_dir = os.path.join(VERIF, "units", r["unit"])
    feats = tuple(r.get("features", ("parallel", "shred-derive")))
    gen.VACUITY[0] = True
    gen.PROBES[:] = []
    try:
        em, _, _, _ = gen.generate(unit_dir, features=feats, mode=r.get("mode", "T"), active=set(r["groups"]))
    except Exception as e:
        return dict(inserted=0, reached=0, unreached=[], note="not generated: %s" % e)
    finally:
        gen.VACUITY[0] = False
    probes = list(gen.PROBES)
    path = os.path.join(out_dir, "vac_%s_%s_%s.rs" % (r["unit"], "_".join(sorted(r["groups"])), r.get("mode", "T")))
    txt = em.text()
    open(path, "w").write(txt)
    lines = txt.split("\n")
    _, rc, vj, diags, stderr, wall = run_verus(path, rlimit=r.get("rlimit", 60), multiple=200)
    reached, limited = set(), False
    for d in diags:
        if d.get("level") != "error":
            continue
        if "Resource limit" in d.get("message", "") or "rlimit" in d.get("message", ""):
            limited = True
        for sp in d.get("spans", []):
            for ln in range(sp.get("line_start", 0), sp.get("line_end", 0) + 1):
                if 0 < ln <= len(lines):
                    m = re.search(r"vx_probe\((\d+)\)", lines[ln - 1])
                    if m and "assertion failed" in d.get("message", ""):
                        reached.add(int(m.group(1)))
    unreached = [probes[k] for k in range(len(probes)) if k not in reached]
    note = ""
    if vj is None:
        note = "verus produced no result on the probe file"
        unreached = []
    elif limited:
        note = "resource limit hit on the probe file; unreached probes not counted"
        unreached = []
    return dict(inserted=len(probes), reached=len(reached), unreached=unreached, note=note, wall_s=round(wall, 1))


def assumption_scan(pid):
    """grep of the generated files for assume/admit/external_body/assume_specification/uninterp"""
    found = {}
    d = os.path.join(BUILD, pid)
    for f in sorted(os.listdir(d)):
        if not f.endswith(".rs") or f.startswith("vac_"):
            continue
        meta = json.load(open(os.path.join(d, f + ".map.json")))["linemap"]
        for n, line in enumerate(open(os.path.join(d, f)).read().split("\n")):
            for kw in ("assume(", "admit(", "external_body", "assume_specification", "uninterp ", "external_type_specification"):
                if kw in line and not line.strip().startswith("//"):
                    part = meta[n].get("part") if n < len(meta) else "?"
                    item = meta[n].get("item") if n < len(meta) else None
                    found.setdefault("%s in %s%s" % (kw.strip("( "), part, (" " + item) if item else ""), set()).add(line.strip()[:140])
    out = []
    bad = []
    for k, v in sorted(found.items()):
        out.append("%s: %d occurrence(s), e.g. %s" % (k, len(v), sorted(v)[0]))
        if re.search(r"^(assume|admit) in (body|sig|requires|ensures|loop)", k):
            bad.append(k)
    return out, bad


def main():
    ap = argparse.ArgumentParser()
    ap.add_argument("property")
    ap.add_argument("--tier", default=os.environ.get("VERIF_TIER", "quick"))
    ap.add_argument("--replay", default=None)
    a = ap.parse_args()
    pid = a.property
    seed = int(os.environ.get("VERIF_SEED", "0") or 0)
    if a.replay and a.replay.endswith(".case"):
        return replay.replay(pid, a.replay)
    if a.replay:
        r = json.load(open(a.replay))
        print(json.dumps(r, indent=1))
        print("replay: obligation %s -- %s" % (r.get("obligation"), "no failing input was found; the verifier's output is in the file" if not r.get("input") else "input: %s" % r.get("input")))
        return 0
    if pid not in PROPS:
        print("unknown or not-applicable property", pid)
        return 2
    tier = a.tier if a.tier in ("quick", "thorough") else "quick"
    res = check_property(pid, tier, seed)
    scan, bad = assumption_scan(pid) if res["runs"] else ([], [])
    known, fixed = load_known()
    known_hit, viol = [], []
    for f in res["failures"]:
        k = [x for x in known if x["property"] == pid and x["obligation"] == f["obligation"]]
        if k:
            known_hit.append((f, k[0]))
        else:
            viol.append(f)
    # committed obligation list: fewer obligations than listed = lost coverage -> undecided
    lst = os.path.join(VERIF, "units", "obligations", "%s.%s.list" % (pid, tier))
    have = sorted(set(re.sub(r"@[^@]*$", "", n) for n in res["obl_names"]))
    if os.environ.get("VERIF_WRITE_OBLIGATIONS") == "1":
        os.makedirs(os.path.dirname(lst), exist_ok=True)
        open(lst, "w").write("\n".join(have) + "\n")
    elif os.path.exists(lst):
        want = set(open(lst).read().split("\n")) - {""}
        missing = sorted(want - set(have))
        if missing and not res["undecided"]:
            res["undecided"].append("lost coverage: %d listed obligations were not generated, e.g. %s" % (len(missing), missing[:3]))
    if bad:
        res["undecided"].append("assume/admit inside extracted code: %s" % bad)
    # ---- bounded search of the real crate: counterexample finder for a rejected obligation, labelled stand-in when the proof is
    # undecided, cross-check otherwise.  Never counted as proof.
    bounded = None
    if pid in replay.BOUNDED and os.environ.get("VERIF_NO_BOUNDED") != "1":
        if viol or res["undecided"] or tier == "thorough":
            cases, tms = (60000, 90000) if tier == "thorough" else (6000, 12000)
        else:
            cases, tms = 6000, 8000
        bounded = replay.search(pid, cases, seed + 1, tms, os.path.join(BUILD, "replay", "%s-bounded.case" % pid))
    found = bool(bounded and bounded.get("available") and bounded.get("found"))
    held = bool(bounded and bounded.get("available") and not bounded.get("found") and bounded.get("explored", 0) > 0)
    # ---- report
    replay_paths = []
    os.makedirs(os.path.join(BUILD, "replay"), exist_ok=True)
    for n, f in enumerate(viol):
        rp = os.path.join(BUILD, "replay", "%s-%d.json" % (pid, n))
        json.dump(dict(property=pid, obligation=f["obligation"], kind=f["kind"], run=f.get("run"), clause=f.get("text"), contract_origin=f.get("origin"),
                       generated_line=f.get("line"), input=None,
                       note="Verus gives no counterexample; " + ("the bounded search of the real crate found a failing input: see " + bounded["file"] if found else
                                                                 "the bounded search of the real crate found no failing input" if held else "no failing input was searched"),
                       verus=f), open(rp, "w"), indent=1)
        replay_paths.append(rp)
    if found:
        # the failing input goes in front of the case file, together with the obligations it stands for
        body = open(bounded["file"]).read()
        head = "".join("# failed obligation: %s (%s)%s\n" % (f["obligation"], f["kind"], (" clause: " + f["text"]) if f.get("text") else "") for f in viol)
        if not viol:
            head = "# the proof %s; this input was found by the bounded search of the real crate\n" % ("is undecided on this tree" if res["undecided"] else "passed")
        open(bounded["file"], "w").write(head + body)
    for f, k in known_hit:
        print("KNOWN-FINDING: property=%s %s :: %s" % (pid, f["obligation"], k["what"]))
    status = 0
    standin = False
    if viol or found:
        status = 1
    elif res["undecided"]:
        if held:
            standin = True  # labelled bounded; the run's evidence says level=exploration
        else:
            status = 2
    # obligations recorded as known findings are reported separately (known_findings_matched), not counted as obligations of the proof
    n_known = len(known_hit)
    obligations = max(res["obligations"] - n_known, 1)
    res["obligations"] = obligations
    discharged = obligations if (status == 0 and not standin) else max(min(obligations - len(viol) - (1 if res["undecided"] else 0), obligations - 1), 0)
    spec = PROPS[pid]
    bsum = None
    if bounded:
        bsum = dict((k, bounded.get(k)) for k in ("available", "found", "explored", "skipped", "distinct", "cmd", "note", "why", "build") if bounded.get(k) is not None)
        bsum["bound"] = replay.bound_text(pid)
        bsum["wall_s"] = round(bounded.get("wall", 0), 2)
        bsum["label"] = "bounded (not proof)"
    cov = dict(
            obligations=res["obligations"], discharged=discharged,
            checker_cmd=" ; ".join(res["cmds"]) or "verus (not run)",
            trusted_base=TRUSTED.get("common", []) + TRUSTED.get(pid, []) + ["assumed extracted item: " + x for x in res["assumed"]] + ["assumption scan: " + x for x in scan],
            obligations_by_backend={"verus/z3": res["obligations"]},
            solver_time_s=round(res["solver_ms"] / 1000.0, 3),
            runs=res["runs"],
            functions_under_contract=res["functions"],
            samples=[n for n in res["obl_names"] if "[" in n and "[]" not in n][:6] or res["obl_names"][:6],
            undecided=res["undecided"],
            undecided_sentences=spec.get("undecided_sentences", []),
            known_findings_matched=[f["obligation"] for f, _ in known_hit],
            fixed_findings=[x for x in fixed if x["property"] == pid],
            violations=[dict(obligation=f["obligation"], kind=f["kind"], clause=f.get("text")) for f in viol],
            bounded_search_of_real_crate=bsum,
            vacuity_probes=res.get("vacuity") or "thorough tier only",
    )
    level = "proof"
    if standin:
        # the proof is undecided on this tree: this run's verdict rests on the bounded stand-in only
        level = "exploration"
        cov.update(evaluations=bounded["explored"], distinct_nontrivial=bounded["distinct"],
                   rule="BOUNDED STAND-IN (proof undecided on this tree): " + replay.bound_text(pid) + "; distinct = distinct case texts, non-trivial = at least two registrations",
                   samples=bounded["samples"] or ["(no sample recorded)"], exhaustive=False)
    ev = dict(
        property_id=pid, tier=tier, seed=seed, level=level,
        coverage=cov,
        assumptions=spec.get("assumptions", []),
        wall_s=round(res["wall"] + (bounded.get("wall", 0) if bounded else 0), 2),
        violations=len(viol) + (1 if found and not viol else 0),
    )
    os.makedirs(EVID, exist_ok=True)
    json.dump(ev, open(os.path.join(EVID, pid + ".json"), "w"), indent=1)
    first = True
    for f, rp in zip(viol, replay_paths):
        print("failed obligation: %s (%s)%s" % (f["obligation"], f["kind"], (" clause: " + f["text"]) if f.get("text") else ""))
        if found and first:
            print("failing input (real crate): %s" % bounded["why"])
            print("VIOLATION property=%s replay=%s" % (pid, bounded["file"]))
        else:
            print("VIOLATION property=%s replay=%s no-failing-input-found" % (pid, rp))
        first = False
    if found and not viol:
        print("failing input (real crate, bounded search; the proof %s): %s" % ("is undecided on this tree" if res["undecided"] else "did not reject it", bounded["why"]))
        print("VIOLATION property=%s replay=%s" % (pid, bounded["file"]))
    for u in res["undecided"]:
        print("UNDECIDED: %s" % u)
    if standin:
        print("PROOF-UNDECIDED property=%s: bounded stand-in held on %d registration sequences (%d distinct non-trivial); level=bounded, not proved" % (pid, bounded["explored"], bounded["distinct"]))
    if status == 0 and standin:
        print("OK-BOUNDED property=%s (proof undecided on this tree; verdict rests on the bounded stand-in)" % pid)
    elif status == 0:
        print("OK property=%s obligations=%d discharged=%d runs=%d wall=%.1fs" % (pid, res["obligations"], discharged, len(res["runs"]), res["wall"]))
    return status


if __name__ == "__main__":
    try:
        rc = main()
    except SystemExit:
        raise
    except BaseException as e:  # a bug of the machinery is never an alarm
        import traceback
        traceback.print_exc()
        print("UNDECIDED: the check itself failed (%r); nothing is reported about the property" % (e,))
        rc = 2
    sys.exit(rc)
