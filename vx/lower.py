"""Lowering rules R1..R12 of DESIGN.md section 3.2(d): iterator-consumer expressions -> their defining loops.

Every rule works on the *text* of one function body: closure bodies are inlined verbatim (sliced from the
source), only the iterator plumbing around them is replaced.  A shape that no rule covers is left alone; Verus
then rejects it and the run ends with exit 2 (undecided), never with an alarm.
"""
import re
from rustlex import lex, match_map, Unsupported, Tok


class Seg:
    def __init__(self, kind, name=None, turbofish=None, args=None, span=None):
        self.kind, self.name, self.turbofish, self.args, self.span = kind, name, turbofish, args, span

    def __repr__(self):
        return "%s:%s" % (self.kind, self.name)


class Chain:
    """primary + postfix segments, with absolute offsets into the text"""

    def __init__(self, text, start, end, primary, segs):
        self.text, self.start, self.end, self.primary, self.segs = text, start, end, primary, segs

    def src(self, a=None, b=None):
        return self.text[self.start if a is None else a:self.end if b is None else b]

    def methods(self):
        return [s.name for s in self.segs if s.kind == "method"]

    def prefix_text(self, nsegs):
        """text of primary + first nsegs segments"""
        if nsegs == 0:
            return self.text[self.start:self.primary[1]]
        return self.text[self.start:self.segs[nsegs - 1].span[1]]


def _back_angle(toks, j):
    depth = 0
    while j >= 0:
        if toks[j].text == ">":
            depth += 1
        elif toks[j].text == "<":
            depth -= 1
            if depth == 0:
                return j
        j -= 1
    raise Unsupported("unbalanced <>")


def chain_start(toks, mm, d):
    """toks[d] is the '.' before a method name; return token index where the postfix chain's primary starts"""
    j = d - 1
    while True:
        t = toks[j]
        if t.text in (")", "]"):
            o = mm[j]
            p = toks[o - 1] if o > 0 else None
            if p is not None and t.text == ")" and (p.kind == "ident" and p.text not in _KEYWORDS_BEFORE_PAREN):
                j = o - 1
                continue
            if p is not None and t.text == ")" and p.text == ">" :
                a = _back_angle(toks, o - 1)
                if toks[a - 1].text == "::":
                    j = a - 2
                    continue
                raise Unsupported("generic call shape")
            if p is not None and t.text == "]" and (p.kind == "ident" or p.text in (")", "]")):
                j = o - 1
                continue
            if p is not None and t.text == ")" and p.text == "!":
                # macro call primary like vec![..] / format!(..)
                j = o - 2
                return j
            return o
        if t.kind in ("ident", "num") or t.kind == "str":
            p = toks[j - 1] if j > 0 else None
            if p is not None and p.text == "." and not (j >= 2 and toks[j - 2].text == ".."):
                j -= 2
                continue
            if p is not None and p.text == "::":
                j -= 2
                if toks[j].text == ">":
                    # <T as Trait>::f  or  Type::<X>::f
                    a = _back_angle(toks, j)
                    if toks[a - 1].text == "::":
                        j = a - 2
                        continue
                    return a
                continue
            return j
        if t.text == "?":
            j -= 1
            continue
        if t.text == "}":
            return mm[j]
        raise Unsupported("chain start at %r" % (t,))


_KEYWORDS_BEFORE_PAREN = {"if", "while", "match", "return", "in", "for", "let", "else", "as", "move"}


def parse_chain(text, toks, mm, s):
    """parse primary starting at token s and all postfix segments"""
    j = s
    t = toks[j]
    if t.text in ("(", "[", "{"):
        j = mm[j] + 1
    else:
        # path: ident (:: ident | ::<..>)*  possibly macro `name!(..)`
        if t.text == "<":
            j = _fwd_angle(toks, j) + 1
        else:
            j += 1
        while j < len(toks) and toks[j].text == "::":
            if toks[j + 1].text == "<":
                j = _fwd_angle(toks, j + 1) + 1
            else:
                j += 2
        if j < len(toks) and toks[j].text == "!" and toks[j + 1].text in ("(", "[", "{"):
            j = mm[j + 1] + 1
        elif j < len(toks) and toks[j].text == "(":
            j = mm[j] + 1
    primary = (toks[s].start, toks[j - 1].end)
    segs = []
    while j < len(toks):
        t = toks[j]
        if t.text == "." and toks[j + 1].kind in ("ident", "num"):
            name = toks[j + 1].text
            k = j + 2
            tf = None
            if k < len(toks) and toks[k].text == "::" and toks[k + 1].text == "<":
                e = _fwd_angle(toks, k + 1)
                tf = text[toks[k].start:toks[e].end]
                k = e + 1
            if k < len(toks) and toks[k].text == "(":
                e = mm[k]
                segs.append(Seg("method", name, tf, (toks[k].end, toks[e].start), (t.start, toks[e].end)))
                j = e + 1
            else:
                segs.append(Seg("field", name, span=(t.start, toks[j + 1].end)))
                j += 2
            continue
        if t.text == "[":
            e = mm[j]
            segs.append(Seg("index", args=(t.end, toks[e].start), span=(t.start, toks[e].end)))
            j = e + 1
            continue
        if t.text == "?":
            segs.append(Seg("try", span=(t.start, t.end)))
            j += 1
            continue
        break
    return Chain(text, primary[0], toks[j - 1].end, primary, segs)


def _fwd_angle(toks, i):
    depth = 0
    j = i
    while j < len(toks):
        if toks[j].text == "<":
            depth += 1
        elif toks[j].text == ">":
            depth -= 1
            if depth == 0:
                return j
        j += 1
    raise Unsupported("unbalanced <>")


def parse_closure(argtext):
    """`|params| body` or `move |params| body`  ->  (params_text, body_text, body_is_block)"""
    s = argtext.strip()
    if s.startswith("move"):
        s = s[4:].lstrip()
    if s.startswith("||"):
        params, rest = "", s[2:]
    elif s.startswith("|"):
        # find closing | at depth 0
        depth, i = 0, 1
        while i < len(s):
            c = s[i]
            if c in "([{<":
                depth += 1
            elif c in ")]}>":
                depth -= 1
            elif c == "|" and depth == 0:
                break
            i += 1
        params, rest = s[1:i], s[i + 1:]
    else:
        return None
    body = rest.strip()
    return params.strip(), body, body.startswith("{")


def find_chains(text, method_names):
    """all chains in text that contain a call to one of method_names, outermost/leftmost first"""
    toks = lex(text)
    mm = match_map(toks)
    out = []
    seen = set()
    for d, t in enumerate(toks):
        if t.text == "." and d + 2 < len(toks) and toks[d + 1].kind == "ident" and toks[d + 1].text in method_names:
            k = d + 2
            if toks[k].text == "::":
                k = _fwd_angle(toks, k + 1) + 1
            if toks[k].text != "(":
                continue
            s = chain_start(toks, mm, d)
            if s in seen:
                continue
            seen.add(s)
            out.append(parse_chain(text, toks, mm, s))
    return out


class Ctr:
    """one counter per lowering rule: generated names depend only on the ordinal of the site among the sites of
    the same rule, so an unrelated edit elsewhere in the function does not rename them"""

    def __init__(self):
        self.c = {}

    def next(self, rule="x"):
        self.c[rule] = self.c.get(rule, 0) + 1
        return self.c[rule] - 1


def bind(pat, expr, by_ref_closure):
    """let-binding that gives a closure parameter pattern its value.
    by_ref_closure: the adaptor passes `&Item` (filter, find, position on iter of values...)"""
    pat = pat.strip()
    # strip type ascription `x: T`
    if by_ref_closure:
        if pat.startswith("&"):
            return "let %s = %s;" % (pat[1:].strip(), expr)
        return "let %s = &%s;" % (pat, expr)
    return "let %s = %s;" % (pat, expr)


def lower_body(text, ctr=None, log=None, ctx=None):
    """apply rules until no rule fires; returns new text. log collects (rule, original_snippet).
    ctx: dict(mut_iter_vars=[..]) identifiers that are `&mut` places when iterated"""
    ctr = ctr or Ctr()
    log = log if log is not None else []
    ctx = ctx or {}
    ctx["ctr"] = ctr
    for _ in range(200):
        new = _lower_once(text, ctr, log, ctx)
        if new is None:
            return text
        text = new
    raise Unsupported("lowering does not terminate")


def _arg(ch, seg):
    return ch.text[seg.args[0]:seg.args[1]]


def _range_primary(ch):
    """primary of the form (A..B) -> (A, B)"""
    p = ch.text[ch.primary[0]:ch.primary[1]].strip()
    if not (p.startswith("(") and p.endswith(")")):
        return None
    inner = p[1:-1]
    toks = lex(inner)
    mm = match_map(toks)
    depth_skip = -1
    for i, t in enumerate(toks):
        if i <= depth_skip:
            continue
        if t.text in ("(", "[", "{"):
            depth_skip = mm[i]
            continue
        if t.text == "..":
            return inner[:t.start].strip(), inner[t.end:].strip()
    return None


CONSUMERS = {"fold", "find", "any", "all", "position", "max", "collect", "retain", "for_each", "unwrap_or", "flatten", "iter", "abs", "extend", "sort", "dedup", "into_iter", "replace", "to_string", "to_owned"}


def _lower_once(text, ctr, log, ctx):
    # ---- for-loops over flatten (R3) are statement-level: handled first
    m = _find_for_flatten(text)
    if m:
        a, b, repl, orig = m(ctr)
        log.append(("R3", orig))
        return text[:a] + repl + text[b:]
    mj = _find_join(text)
    if mj:
        a, b, repl, orig = mj
        log.append(("R11", orig))
        return text[:a] + repl + text[b:]
    # R11 first: closures handed to rayon become plain blocks / loops before the loops inside them are looked at
    for ch in find_chains(text, {"for_each", "install", "spawn"}):
        ms = ch.methods()
        r = None
        if ms[-2:] == ["par_iter_mut", "for_each"]:
            r = _r11_foreach(ch, ctr)
        elif ms and ms[-1] == "install" and ch.segs[-1].kind == "method":
            r = _r11_install(ch, ctr)
        elif ms and ms[-1] == "spawn" and ch.segs[-1].kind == "method":
            r = _r11_install(ch, ctr, "vx_pool_spawn")
        if r is not None:
            log.append(("R11", ch.src()))
            return text[:ch.start] + r + text[ch.end:]
    m20 = re.search(r"\bSome\s*\(\s*&\s*([a-z_][a-z0-9_]*)\s*\)\s*=>", text)
    if m20:
        toks = lex(text)
        mm = match_map(toks)
        st = [i for i, t in enumerate(toks) if t.start >= m20.end()][0]
        j = st
        if toks[j].text == "{":
            e = toks[mm[j]].end
        else:
            while j < len(toks) and toks[j].text not in (",", "}"):
                if toks[j].text in ("(", "[", "{"):
                    j = mm[j]
                j += 1
            e = toks[j - 1].end
        x = m20.group(1)
        log.append(("R20", m20.group(0)))
        return text[:m20.start()] + "Some(rp_%s) => { let %s = *rp_%s; %s }" % (x, x, x, text[toks[st].start:e]) + text[e:]
    mu = re.search(r"\bfor\s+_\s+in\b", text)
    if mu:
        n = ctr.next("R17")
        log.append(("R17", mu.group(0)))
        return text[:mu.start()] + "for vi_%d in" % n + text[mu.end():]
    m = _find_for_container(text, ctx)
    if m:
        a, b, repl, orig, rule = m
        log.append((rule, orig))
        return text[:a] + repl + text[b:]
    m = _find_entry_idiom(text, ctr)
    if m:
        a, b, repl, orig = m
        log.append(("R13", orig))
        return text[:a] + repl + text[b:]
    chains = find_chains(text, {"fold", "unwrap_or", "any", "all", "position", "unwrap", "collect", "retain", "for_each", "install", "unwrap_or_else", "expect", "map"})
    for ch in chains:
        ms = ch.methods()
        r = None
        if ms[-2:] == ["filter", "fold"] and _range_primary(ch) and len(ch.segs) == 2:
            r = _r1(ch, ctr)
            rule = "R1"
        elif ms == ["map", "find", "map", "unwrap_or"] and _range_primary(ch):
            r = _r2(ch, ctr)
            rule = "R2"
        elif ms and ms[-1] in ("any", "all") and ch.segs[-1].kind == "method":
            r = _r4(ch, ctr)
            rule = "R4"
        elif ms[-2:] == ["iter", "position"]:
            r = _r5(ch, ctr)
            rule = "R5"
        elif ms[-4:] == ["iter", "map", "max", "unwrap_or"]:
            r = _r6b(ch, ctr)
            rule = "R6"
        elif ms[-3:] == ["iter", "max", "unwrap"]:
            r = _r6(ch, ctr)
            rule = "R6"
        elif ms and ms[-1] == "collect":
            r = _r7(ch, ctr)
            rule = "R7"
        elif ms and ms[-1] == "retain" and ch.segs[-1].kind == "method":
            r = _r12(ch, ctr)
            rule = "R12"
        elif ms[-2:] == ["par_iter_mut", "for_each"]:
            r = _r11_foreach(ch, ctr)
            rule = "R11"
        elif ms and ms[-1] == "install" and ch.segs[-1].kind == "method":
            r = _r11_install(ch, ctr)
            rule = "R11"
        elif ms and ms[-1] == "unwrap_or_else" and "panic!" in _arg(ch, ch.segs[-1]):
            r = "vx_unwrap(" + ch.prefix_text(len(ch.segs) - 1) + ")"
            rule = "R8"
        elif ms and ms[-1] == "expect" and ch.segs[-1].kind == "method":
            r = "vx_unwrap(" + ch.prefix_text(len(ch.segs) - 1) + ")"
            rule = "R8"
        if r is None and "map" in ms and not (set(ms) & _ITER_SEGS) and not _range_primary(ch):
            # R19: Option::map  ->  match  (first `map` segment of the chain; later ones are handled in the next rounds)
            k = [i for i, sg in enumerate(ch.segs) if sg.kind == "method" and sg.name == "map"][0]
            r19 = _r19(ch, k, ctr)
            if r19 is not None:
                log.append(("R19", ch.text[ch.start:ch.segs[k].span[1]]))
                return text[:ch.start] + r19 + text[ch.segs[k].span[1]:]
        if r is not None:
            log.append((rule, ch.src()))
            if rule not in ("R12", "R11", "R8"):
                r = "(" + r + ")"   # expression position: keep the block from being parsed as a statement / loop body
            return text[:ch.start] + r + text[ch.end:]
    return None


def _r1(ch, ctr):
    a, b = _range_primary(ch)
    filt, fold = ch.segs
    cl = parse_closure(_arg(ch, filt))
    if cl is None:
        return None
    pat, body, _ = cl
    fargs = _split_args(_arg(ch, fold))
    if len(fargs) != 2:
        return None
    init, f = fargs
    n = ctr.next("R1")
    return ("{\n let mut acc_%d = %s;\n let mut it_%d = %s;\n let end_%d = %s;\n /*@L:R1*/ while it_%d < end_%d\n {\n %s\n let keep_%d = %s;\n"
            " if keep_%d { acc_%d = %s(acc_%d, it_%d); }\n it_%d += 1;\n }\n acc_%d\n}") % (
        n, init, n, a, n, b, n, n, bind(pat, "it_%d" % n, True), n, _as_block(body), n, n, f, n, n, n, n)


def _as_block(body):
    body = body.strip()
    return body if body.startswith("{") else "{ " + body + " }"


def _split_args(s):
    toks = lex(s)
    mm = match_map(toks)
    out, last, i = [], 0, 0
    while i < len(toks):
        t = toks[i]
        if t.text in ("(", "[", "{"):
            i = mm[i] + 1
            continue
        if t.text == "|":
            # closure: runs to end of this arg; find next top-level comma after closure params
            pass
        if t.text == ",":
            out.append(s[last:t.start].strip())
            last = t.end
        i += 1
    tail = s[last:].strip()
    if tail:
        out.append(tail)
    return out


def _r2(ch, ctr):
    a, b = _range_primary(ch)
    mp, fd, mp2, uo = ch.segs
    c1, c2, c3 = parse_closure(_arg(ch, mp)), parse_closure(_arg(ch, fd)), parse_closure(_arg(ch, mp2))
    if not (c1 and c2 and c3):
        return None
    d = _arg(ch, uo).strip()
    n = ctr.next("R2")
    return ("{\n let mut found_%d = None;\n let mut sit_%d = %s;\n let send_%d = %s;\n /*@L:R2*/ while sit_%d < send_%d\n {\n %s\n let item_%d = %s;\n"
            " let pred_%d = { %s %s };\n if pred_%d { found_%d = Some(item_%d); break; }\n sit_%d += 1;\n }\n"
            " match found_%d { Some(%s) => %s, None => %s }\n}") % (
        n, n, a, n, b, n, n, bind(c1[0], "sit_%d" % n, False), n, _as_block(c1[1]),
        n, bind(c2[0], "item_%d" % n, True).replace("= &item_", "= item_"), c2[1], n, n, n, n,
        n, c3[0], _as_block(c3[1]), d)


def _r4(ch, ctr):
    seg = ch.segs[-1]
    cl = parse_closure(_arg(ch, seg))
    if cl is None:
        return None
    pat, body, _ = cl
    recv = ch.prefix_text(len(ch.segs) - 1)
    n = ctr.next("R4")
    is_any = seg.name == "any"
    # the receiver is bound by `match` so that temporaries in it live as long as in the original expression
    return ("match %s { ai_%d => {\n let mut res_%d = %s;\n let mut ak_%d: usize = 0;\n /*@L:R4*/ while ak_%d < ai_%d.len() && %sres_%d\n {\n"
            " %s\n let ab_%d = %s;\n if %sab_%d { res_%d = %s; }\n ak_%d += 1;\n }\n res_%d\n} }") % (
        recv, n, n, "false" if is_any else "true", n, n, n, "!" if is_any else "", n,
        bind(pat, "ai_%d.get(ak_%d)" % (n, n), False), n, _as_block(body), "" if is_any else "!", n, n,
        "true" if is_any else "false", n, n)


def _r5(ch, ctr):
    it, pos = ch.segs[-2], ch.segs[-1]
    cl = parse_closure(_arg(ch, pos))
    if cl is None:
        return None
    recv = ch.prefix_text(len(ch.segs) - 2)
    n = ctr.next("R5")
    return ("{\n let mut pos_%d: Option<usize> = None;\n let mut pk_%d: usize = 0;\n /*@L:R5*/ while pk_%d < %s.len()\n {\n %s\n"
            " let pbody_%d = %s;\n if pbody_%d { pos_%d = Some(pk_%d); break; }\n pk_%d += 1;\n }\n pos_%d\n}") % (
        n, n, n, recv, bind(cl[0], "&%s[pk_%d]" % (recv, n), False), n, _as_block(cl[1]), n, n, n, n, n)


def _r6(ch, ctr):
    recv = ch.prefix_text(len(ch.segs) - 3)
    n = ctr.next("R6")
    return ("{\n vx_check(%s.len() > 0);\n let mut mi_%d: usize = 0;\n let mut mk_%d: usize = 1;\n /*@L:R6*/ while mk_%d < %s.len()\n {\n"
            " if %s[mk_%d] >= %s[mi_%d] { mi_%d = mk_%d; }\n mk_%d += 1;\n }\n &%s[mi_%d]\n}") % (
        recv, n, n, n, recv, recv, n, recv, n, n, n, n, recv, n)


def _r6b(ch, ctr):
    """E.iter().map(F).max().unwrap_or(D): maximum of F over the elements, D when there is none"""
    recv = ch.prefix_text(len(ch.segs) - 4)
    f = _arg(ch, ch.segs[-3]).strip()
    d = _arg(ch, ch.segs[-1]).strip()
    cl = parse_closure(f)
    n = ctr.next("R6b")
    call = ("{ %s %s }" % (bind(cl[0], "&%s[bk_%d]" % (recv, n), False), cl[1])) if cl else "%s(&%s[bk_%d])" % (f, recv, n)
    return ("{\n let mut best_%d: Option<usize> = None;\n let mut bk_%d: usize = 0;\n /*@L:R6*/ while bk_%d < %s.len()\n {\n let bv_%d = %s;\n"
            " match best_%d { Some(b) => { if bv_%d >= b { best_%d = Some(bv_%d); } } None => { best_%d = Some(bv_%d); } }\n bk_%d += 1;\n }\n"
            " match best_%d { Some(b) => b, None => %s }\n}") % (n, n, n, recv, n, call, n, n, n, n, n, n, n, n, d)


_ITER_SEGS = {"iter", "iter_mut", "into_iter", "vx_iter", "chain", "filter", "flatten", "cloned", "collect", "fold", "find", "max", "par_iter_mut", "zip", "rev", "enumerate", "position", "any", "all"}


def _r19(ch, k, ctr):
    """OPT.map(F)  ->  match OPT { Some(v) => Some(F applied to v), None => None }"""
    seg = ch.segs[k]
    recv = ch.prefix_text(k)
    arg = _arg(ch, seg).strip()
    n = ctr.next("R19")
    cl = parse_closure(arg)
    if cl is not None:
        pat, body, _ = cl
        if pat.startswith("&") and not pat.startswith("&mut"):
            app = "{ let %s = *ov_%d; %s }" % (pat[1:].strip(), n, body)   # `|&x|` on a Copy item
        else:
            app = "{ let %s = ov_%d; %s }" % (pat, n, body)
    else:
        if not re.match(r"^[A-Za-z_][A-Za-z0-9_:<>]*$", arg):
            return None
        app = "%s(ov_%d)" % (arg, n)
    return "(match %s { Some(ov_%d) => Some(%s), None => None })" % (recv, n, app)


def _r7(ch, ctr):
    ms = ch.methods()
    n = ctr.next("R7")
    # X.iter().flatten().flatten().cloned().collect::<Vec<_>>()
    if ms[-5:] == ["iter", "flatten", "flatten", "cloned", "collect"]:
        recv = ch.prefix_text(len(ch.segs) - 5)
        return ("{\n let mut out_%d = Vec::new();\n let mut ca_%d: usize = 0;\n /*@L:R7*/ while ca_%d < %s.len()\n {\n let mut cb_%d: usize = 0;\n"
                " /*@L:R7*/ while cb_%d < %s[ca_%d].len()\n {\n let mut cc_%d: usize = 0;\n /*@L:R7*/ while cc_%d < %s[ca_%d][cb_%d].len()\n {\n"
                " out_%d.push(%s[ca_%d][cb_%d][cc_%d].clone());\n cc_%d += 1;\n }\n cb_%d += 1;\n }\n ca_%d += 1;\n }\n out_%d\n}") % (
            n, n, n, recv, n, n, recv, n, n, n, recv, n, n, n, recv, n, n, n, n, n, n, n)
    # X.iter().map(|p| BODY).collect()
    if ms[-3:] == ["iter", "map", "collect"]:
        cl = parse_closure(_arg(ch, ch.segs[-2]))
        if cl is None:
            return None
        recv = ch.prefix_text(len(ch.segs) - 3)
        return ("{\n let mut out_%d = vx_collect_new();\n let mut ck_%d: usize = 0;\n /*@L:R7*/ while ck_%d < %s.len()\n {\n %s\n"
                " let citem_%d = %s;\n out_%d.push(citem_%d);\n ck_%d += 1;\n }\n out_%d\n}") % (
            n, n, n, recv, bind(cl[0], "&%s[ck_%d]" % (recv, n), False), n, _as_block(cl[1]), n, n, n, n)
    return None


def _r12(ch, ctr):
    seg = ch.segs[-1]
    cl = parse_closure(_arg(ch, seg))
    if cl is None:
        return None
    recv = ch.prefix_text(len(ch.segs) - 1)
    n = ctr.next("R12")
    return ("{\n let mut rk_%d: usize = 0;\n /*@L:R12*/ while rk_%d < %s.len()\n {\n let rkeep_%d = { %s %s };\n"
            " if rkeep_%d { rk_%d += 1; } else { %s.remove(rk_%d); }\n }\n}") % (
        n, n, recv, n, bind(cl[0], "&%s[rk_%d]" % (recv, n), False), cl[1], n, n, recv, n)


def _find_for_flatten(text):
    """`for PAT in E.iter().flatten() BLOCK`  ->  two nested index loops (R3)"""
    toks = lex(text)
    mm = match_map(toks)
    for i, t in enumerate(toks):
        if t.kind == "ident" and t.text == "for" and (i == 0 or toks[i - 1].text not in ("<", "+")):
            # find `in`
            j = i + 1
            while j < len(toks) and not (toks[j].kind == "ident" and toks[j].text == "in"):
                if toks[j].text in ("(", "["):
                    j = mm[j]
                j += 1
            if j >= len(toks):
                continue
            # body block: first '{' at depth 0 after `in`
            k = j + 1
            while toks[k].text != "{":
                if toks[k].text in ("(", "["):
                    k = mm[k]
                k += 1
            expr = text[toks[j + 1].start:toks[k - 1].end]
            m = re.match(r"^(.*)\.iter\(\)\s*\.flatten\(\)\s*$", expr, re.S)
            if not m:
                continue
            recv = m.group(1).strip()
            pat = text[toks[i + 1].start:toks[j - 1].end]
            body = text[toks[k].start:toks[mm[k]].end]
            a, b = t.start, toks[mm[k]].end

            def mk(ctr, recv=recv, pat=pat, body=body, a=a, b=b, orig=text[a:toks[k].start]):
                n = ctr.next("R3")
                repl = ("{\n let mut fa_%d: usize = 0;\n /*@L:R3*/ while fa_%d < %s.len()\n {\n let mut fb_%d: usize = 0;\n"
                        " /*@L:R3*/ while fb_%d < %s[fa_%d].len()\n {\n let %s = &%s[fa_%d].as_slice()[fb_%d];\n %s\n fb_%d += 1;\n }\n fa_%d += 1;\n }\n}") % (
                    n, n, recv, n, n, recv, n, pat, recv, n, n, body, n, n)
                return a, b, repl, orig
            return mk
    return None


def subst_ident(text, name, repl):
    """replace free occurrences of identifier `name` (not a field / method name, not a path segment) by repl"""
    toks = lex(text)
    out, last = [], 0
    for i, t in enumerate(toks):
        if t.kind == "ident" and t.text == name:
            prv = toks[i - 1].text if i > 0 else ""
            nxt = toks[i + 1].text if i + 1 < len(toks) else ""
            if prv in (".", "::") or nxt == "::" or (nxt == ":" and prv in ("{", ",")):
                continue
            out.append(text[last:t.start])
            out.append(repl)
            last = t.end
    out.append(text[last:])
    return "".join(out)


_MODE = re.compile(r"^/\*@mode:(mut|value|shared)\*/\s*")


def _find_for_container(text, ctx):
    """`for PAT in E BLOCK` over a container (not a range / iterator chain):
       R14  E = `&mut X` (or a `&mut` place)  ->  index loop, PAT replaced by X.vx_at_mut(k)
       R15  E by value                         ->  `let mut it = E; while it.len() > 0 { let PAT = it.vx_pop_front(); BLOCK }`
       R16  E = `&X`                           ->  index loop, `let PAT = X.vx_at(k);`"""
    toks = lex(text)
    mm = match_map(toks)
    for i, t in enumerate(toks):
        if not (t.kind == "ident" and t.text == "for"):
            continue
        if i > 0 and toks[i - 1].text in ("<", "+", ":", "dyn", "impl", "where", ","):
            continue
        if toks[i + 1].text == "<":
            continue
        j = i + 1
        while j < len(toks) and not (toks[j].kind == "ident" and toks[j].text == "in"):
            if toks[j].text in ("(", "["):
                j = mm[j]
            j += 1
        if j >= len(toks):
            continue
        k = j + 1
        while toks[k].text != "{":
            if toks[k].text in ("(", "["):
                k = mm[k]
            k += 1
        expr = text[toks[j].end:toks[k].start].strip()
        pat = text[toks[i + 1].start:toks[j - 1].end].strip()
        if ".." in expr and not expr.startswith("&"):
            continue   # range: Verus handles `for x in a..b`
        mode = None
        mo = _MODE.match(expr)
        if mo:
            mode, expr = mo.group(1), expr[mo.end():]
        elif expr.startswith("&mut "):
            mode, expr = "mut", expr[5:].strip()
        elif expr.startswith("&"):
            mode, expr = "shared", expr[1:].strip()
        elif re.match(r"^[A-Za-z_][A-Za-z0-9_]*$", expr) and expr in ctx.get("mut_iter_vars", ()):
            mode = "mut"
        elif re.search(r"\.(iter|iter_mut|into_iter|vx_iter|chain|map|filter|rev|zip)\s*\(", expr):
            continue   # iterator expression: other rules / Verus
        else:
            mode = "value"
        if not re.match(r"^[A-Za-z_][A-Za-z0-9_]*$", pat):
            continue
        body = text[toks[k].start:toks[mm[k]].end]
        a, b = t.start, toks[mm[k]].end
        orig = text[a:toks[k].start]
        n = ctx["ctr"].next({"mut": "R14", "shared": "R16", "value": "R15"}[mode])

        def mark_inner(bd, var, md):
            # inner `for Q in var` inherits the mode
            return re.sub(r"(\bfor\s+[A-Za-z_][A-Za-z0-9_]*\s+in\s+)%s(\s*\{)" % re.escape(var), r"\1/*@mode:%s*/ %s\2" % (md, var), bd)
        if mode == "mut":
            place = "%s.vx_at_mut(a_%d)" % (expr, n)
            bd = mark_inner(body, pat, "mut")
            bd = subst_ident(bd, pat, place)
            shared = expr.replace("vx_at_mut", "vx_at")
            repl = ("{\n let mut a_%d: usize = 0;\n /*@L:R14*/ while a_%d < %s.len()\n {\n %s\n a_%d += 1;\n }\n}") % (n, n, shared, bd, n)
            return a, b, repl, orig, "R14"
        if mode == "shared":
            bd = mark_inner(body, pat, "shared")
            repl = ("{\n let mut sa_%d: usize = 0;\n /*@L:R16*/ while sa_%d < %s.len()\n {\n let %s = %s.vx_at(sa_%d);\n %s\n sa_%d += 1;\n }\n}") % (
                n, n, expr, pat, expr, n, bd, n)
            return a, b, repl, orig, "R16"
        bd = mark_inner(body, pat, "value")
        repl = ("{\n let mut vt_%d = %s;\n /*@L:R15*/ while vt_%d.len() > 0\n {\n let %s = vt_%d.vx_pop_front();\n %s\n }\n}") % (n, expr, n, pat, n, bd)
        return a, b, repl, orig, "R15"
    return None


def _find_join(text):
    """`let A = move || EA; let B = move || EB; ... POOL.join(A, B)` / `join(A, B)`: rayon's join calls both closures
    exactly once and returns after both returned (trusted); under that contract the call is `{ EA; EB; }`.  The closure
    bindings are removed and their bodies inlined at the call."""
    m = re.search(r"\b(?:[A-Za-z_][A-Za-z0-9_]*\s*\.\s*)?join\(\s*([a-z_][a-z0-9_]*)\s*,\s*([a-z_][a-z0-9_]*)\s*\)", text)
    if not m:
        return None
    a_name, b_name = m.group(1), m.group(2)
    bodies = {}
    for nm in (a_name, b_name):
        lets = list(re.finditer(r"let\s+%s\s*=\s*move\s*\|\|\s*" % re.escape(nm), text[:m.start()]))
        if not lets:
            return None
        bodies[nm] = lets[-1]
    # both closure lets must be simple expression closures ending at `;`
    def closure_end(mm):
        depth, i = 0, mm.end()
        while i < len(text):
            c = text[i]
            if c in "([{":
                depth += 1
            elif c in ")]}":
                depth -= 1
            elif c == ";" and depth == 0:
                return i
            i += 1
        raise Unsupported("join closure shape")
    ea = closure_end(bodies[a_name]); eb = closure_end(bodies[b_name])
    body_a = text[bodies[a_name].end():ea].strip(); body_b = text[bodies[b_name].end():eb].strip()
    # only the first call site is rewritten per round; the bindings are dropped when no call site is left
    new = text[:m.start()] + "{ %s; %s; }" % (body_a, body_b) + text[m.end():]
    rest_calls = re.search(r"\bjoin\(\s*%s\s*,\s*%s\s*\)" % (re.escape(a_name), re.escape(b_name)), new)
    if not rest_calls:
        # remove the two closure lets (the later one first)
        spans = sorted([(bodies[a_name].start(), ea + 1), (bodies[b_name].start(), eb + 1)], reverse=True)
        for (x, y) in spans:
            new = new[:x] + new[y:]
    return 0, len(text), new, m.group(0)


def _r11_foreach(ch, ctr):
    """X.par_iter_mut().for_each(|PAT| BODY): rayon calls the closure exactly once per element and returns after all
    calls returned (trusted); under that contract it is `for PAT in &mut X BODY`"""
    cl = parse_closure(_arg(ch, ch.segs[-1]))
    if cl is None:
        return None
    recv = ch.prefix_text(len(ch.segs) - 2)
    return "/*@R11 par_iter_mut().for_each*/ for %s in &mut %s %s" % (cl[0].strip(), recv, _as_block(cl[1]))


def _r11_install(ch, ctr, prim="vx_pool_install"):
    """POOL.install(move || BODY): runs BODY once inside the pool and returns its result (trusted);
    POOL.spawn(move || BODY): runs BODY exactly once, later (trusted)"""
    cl = parse_closure(_arg(ch, ch.segs[-1]))
    if cl is None:
        return None
    recv = ch.prefix_text(len(ch.segs) - 1)
    return "{ %s(%s); %s }" % (prim, recv, _as_block(cl[1]))


def _find_entry_idiom(text, ctr):
    """R13: `if let Entry::Vacant(E) = M.entry(K) { ..E.insert(V).. } else ELSE`
            ->  `{ let key_n = K; if M.vx_vacant(&key_n) { ..M.vx_insert_vacant(key_n, V).. } else ELSE }`"""
    m = re.search(r"\bif\s+let\s+Entry::Vacant\(\s*([a-z_][a-z0-9_]*)\s*\)\s*=\s*", text)
    if not m:
        return None
    toks = lex(text)
    mm = match_map(toks)
    # expression after '=' up to the block '{'
    st = None
    for i, t in enumerate(toks):
        if t.start >= m.end():
            st = i
            break
    k = st
    while toks[k].text != "{":
        if toks[k].text in ("(", "["):
            k = mm[k]
        k += 1
    expr = text[toks[st].start:toks[k].start].strip()
    me = re.match(r"^(.*)\.entry\((.*)\)$", expr, re.S)
    if not me:
        raise Unsupported("entry idiom shape: %r" % expr)
    recv, key = me.group(1).strip(), me.group(2).strip()
    e = m.group(1)
    blk_end = mm[k]
    block = text[toks[k].start:toks[blk_end].end]
    n = ctr.next("R13")
    block2 = re.sub(r"\b%s\s*\.\s*insert\s*\(" % re.escape(e), "%s.vx_insert_vacant(key_%d, " % (recv, n), block)
    if block2 == block:
        raise Unsupported("entry idiom without insert")
    # else branch (optional)
    end = toks[blk_end].end
    tail = ""
    if blk_end + 1 < len(toks) and toks[blk_end + 1].text == "else":
        e2 = mm[blk_end + 2]
        tail = " else " + text[toks[blk_end + 2].start:toks[e2].end]
        end = toks[e2].end
    repl = "{\n let key_%d = %s;\n if %s.vx_vacant(&key_%d) %s%s\n}" % (n, key, recv, n, block2, tail)
    return m.start(), end, repl, text[m.start():toks[k].start]


# ---------------------------------------------------------------------------------------------
# simple token-level rewrites (R8..R10 and method renames), applied after the structural rules
# ---------------------------------------------------------------------------------------------

def rewrite_methods(text, table):
    """rename `.name(` -> `.new(` for every (name, new) in table, on tokens (never inside strings/comments)"""
    toks = lex(text)
    out, last = [], 0
    for i, t in enumerate(toks):
        if t.text == "." and i + 2 < len(toks) and toks[i + 1].kind == "ident" and toks[i + 1].text in table \
                and toks[i + 2].text in ("(", "::"):
            out.append(text[last:toks[i + 1].start])
            out.append(table[toks[i + 1].text])
            last = toks[i + 1].end
    out.append(text[last:])
    return "".join(out)


def rewrite_macros(text, table):
    """`name!(ARGS)` -> table[name](ARGS-transformed).  table maps macro name -> callable(args_text)->replacement"""
    while True:
        toks = lex(text)
        mm = match_map(toks)
        for i, t in enumerate(toks):
            if t.kind == "ident" and t.text in table and i + 2 < len(toks) and toks[i + 1].text == "!" \
                    and toks[i + 2].text in ("(", "[", "{"):
                e = mm[i + 2]
                args = text[toks[i + 2].end:toks[e].start]
                repl = table[t.text](args)
                text = text[:t.start] + repl + text[toks[e].end:]
                break
        else:
            return text


def loops(text):
    """every loop (`while`, `for`, `loop`) in textual order as (keyword_offset, open_brace_offset, close_brace_offset, kind);
    kind is the lowering rule that generated the loop (marker /*@L:Rn*/) or the keyword itself"""
    toks = lex(text)
    mm = match_map(toks)
    out = []
    for i, t in enumerate(toks):
        if t.kind == "ident" and t.text in ("while", "for", "loop"):
            if t.text == "for" and i > 0 and toks[i - 1].text in ("<", "+", ":", "dyn", "impl", "where", ","):
                continue  # for<'a> HRTB
            if t.text == "for" and toks[i + 1].text == "<":
                continue
            k = i + 1
            while k < len(toks) and toks[k].text != "{":
                if toks[k].text in ("(", "["):
                    k = mm[k]
                k += 1
            if k >= len(toks):
                continue
            m = re.search(r"/\*@L:(R\d+)\*/\s*$", text[:t.start])
            out.append((t.start, toks[k].start, toks[mm[k]].start, m.group(1) if m else t.text))
    return out


def loop_keys(lp):
    """kind#ordinal-within-kind for every loop"""
    cnt, keys = {}, []
    for (_, _, _, kind) in lp:
        cnt[kind] = cnt.get(kind, 0) + 1
        keys.append("%s#%d" % (kind, cnt[kind]))
    return keys
