"""vx generator: extract items of /repo verbatim, apply the mechanical rules, splice contracts, emit one Verus file.

A *unit* is a python module in /verif/units/<unit>/unit.py exposing UNIT (dict).  See units/u1_sched/unit.py.
"""
import hashlib
import json
import os
import re
import sys
import time

from rustlex import (lex, match_map, scan_items, find_item, strip_comments, Unsupported, norm, cfg_ok, angle_close)
import lower

REPO = os.environ.get("VERIF_REPO", "/repo")


# ------------------------------------------------------------------------------------------------
# contract files
# ------------------------------------------------------------------------------------------------
class Contract:
    def __init__(self, key):
        self.key = key
        self.sections = {}  # name -> list of (label, text)
        self.origin = {}

    def get(self, name):
        return self.sections.get(name, [])


def parse_vspec(path):
    """
    @fn KEY
    @returns r
    @nloops N            (optional: lost-anchor guard)
    @requires / @ensures (one clause per tagged line `#groups[.label]: clause`; untagged lines continue the clause)
    @sigtail             (verbatim, e.g. `decreases x`)
    @entry               (proof text placed at function entry; lines may be tagged `#groups: text`)
    @loop N              (sub-part keyword lines `invariant` / `invariant_except_break` / `ensures` / `decreases`,
                          then tagged clause lines)
    @loopend N / @afterloop N / @beforeloop N   (proof text, lines may be tagged)
    groups: comma separated clause groups (see unit.GROUPS); `*` = shared.  A line is emitted iff it is untagged or
    one of its groups is active for the property being checked.
    """
    out = {}
    cur, sec = None, None
    for ln, line in enumerate(open(path).read().split("\n"), 1):
        origin = "%s:%d" % (os.path.basename(path), ln)
        if line.startswith("@fn "):
            cur = Contract(line[4:].strip())
            if cur.key in out:
                raise Unsupported("duplicate contract %s" % cur.key)
            out[cur.key] = cur
            sec = None
            continue
        if line.startswith("@returns ") or line.startswith("@nloops "):
            k, v = line[1:].split(None, 1)
            cur.sections[k] = [Cl(None, None, v.strip(), origin)]
            continue
        if line.startswith("@"):
            sec = line[1:].strip()
            if cur is None:
                raise Unsupported("%s:%d section outside @fn" % (path, ln))
            cur.sections.setdefault(sec, [])
            continue
        if line.strip().startswith("//!") or not line.strip():
            continue
        if cur is None or sec is None:
            raise Unsupported("%s:%d text outside section" % (path, ln))
        m = re.match(r"\s*#([A-Za-z0-9_,*]+)(?:\.([A-Za-z0-9_\-]+))?:\s?(.*)$", line)
        if m:
            cur.sections[sec].append(Cl(set(m.group(1).split(",")), m.group(2), m.group(3), origin))
        else:
            cur.sections[sec].append(Cl(None, None, line, origin))
    return out


class Cl:
    """one line of a contract section"""

    def __init__(self, groups, label, text, origin):
        self.groups, self.label, self.text, self.origin = groups, label, text, origin

    def name(self):
        g = ",".join(sorted(self.groups)) if self.groups else ""
        return (g + "." + self.label) if self.label else g


CURRENT_MODE = ["T"]   # set by generate(); a clause tagged `T` / `P` is emitted in that panic mode only


def _on(groups, active):
    if groups is None or '*' in groups or CURRENT_MODE[0] in groups:
        return True
    gs = groups - {"T", "P"}
    if not gs:
        return False   # tagged for the other mode only
    return active is None or bool(gs & active)


def select_hints(lines, active):
    """hint sections: every line stands alone (tagged -> conditional, untagged -> always)"""
    return [c for c in lines if _on(c.groups, active)]


def select(lines, active):
    """keep untagged lines and lines with an active group; an untagged line directly following a dropped tagged line
    (continuation of that clause) is dropped too"""
    out, keep = [], True
    for c in lines:
        if c.groups is not None:
            keep = _on(c.groups, active)
        elif c.text.strip() in KEYWORDS:
            keep = True
        if keep:
            out.append(c)
    return out


KEYWORDS = ("invariant", "invariant_except_break", "ensures", "decreases", "requires")


# ------------------------------------------------------------------------------------------------
# mechanical text rules
# ------------------------------------------------------------------------------------------------
def erase_lifetimes(text):
    toks = lex(text)
    drop = [False] * len(toks)
    n = len(toks)
    for i, t in enumerate(toks):
        if t.kind != "lifetime":
            continue
        if t.text == "'static" and False:
            continue
        drop[i] = True
        nxt = toks[i + 1].text if i + 1 < n else ""
        prv = toks[i - 1].text if i > 0 else ""
        if nxt == ":":
            # `'b: 'a` bound (in generics or where clause): drop through the bound list
            j = i + 1
            drop[j] = True
            j += 1
            while j < n and (toks[j].kind == "lifetime" or toks[j].text == "+"):
                drop[j] = True
                j += 1
            if j < n and toks[j].text == "," and prv in ("<", ",", "where"):
                drop[j] = True
        elif nxt == "," and prv in ("<", ","):
            drop[i + 1] = True
        elif prv == "+":
            drop[i - 1] = True
        elif nxt == "+" and prv == ":":
            drop[i + 1] = True
        elif prv == "," and nxt == ">":
            drop[i - 1] = True
    out, last = [], 0
    for i, t in enumerate(toks):
        if drop[i]:
            out.append(text[last:t.start])
            last = t.end
    out.append(text[last:])
    s = "".join(out)
    s = re.sub(r"\bfor\s*<\s*>\s*", "", s)
    s = re.sub(r"<\s*>", "", s)
    s = re.sub(r"<\s*,\s*", "<", s)
    s = re.sub(r":\s*\+\s*", ": ", s)
    s = re.sub(r"\+\s*\+", "+", s)
    s = re.sub(r"\+\s*([,>{])", r"\1", s)
    s = re.sub(r"&\s+mut\b", "&mut", s)
    return s


def drop_where_clause(sig):
    """remove `where ...` from a signature (up to the end)"""
    toks = lex(sig)
    mm = match_map(toks)
    i = 0
    while i < len(toks):
        if toks[i].text in ("(", "[", "{"):
            i = mm[i] + 1
            continue
        if toks[i].kind == "ident" and toks[i].text == "where":
            return sig[:toks[i].start].rstrip() + "\n"
        i += 1
    return sig


def drop_fn_generics(sig):
    m = re.search(r"\bfn\s+[A-Za-z_0-9]+\s*<", sig)
    if not m:
        return sig
    toks = lex(sig)
    for i, t in enumerate(toks):
        if t.start == m.end() - 1:
            depth = 0
            for j in range(i, len(toks)):
                if toks[j].text == "<":
                    depth += 1
                elif toks[j].text == ">":
                    depth -= 1
                    if depth == 0:
                        return sig[:t.start] + sig[toks[j].end:]
    raise Unsupported("generics")


def apply_rules(text, rules):
    for r in rules:
        if callable(r):
            text = r(text)
            continue
        pat, repl = r
        text = re.sub(pat, repl, text, flags=re.S)
    return text


def pub_tuple_fields(text):
    """`struct S(A, B);` -> `struct S(pub A, pub B);` (fields made visible to spec functions)"""
    toks = lex(text)
    mm = match_map(toks)
    for i, t in enumerate(toks):
        if t.text == "struct":
            k = i + 2
            if toks[k].text == "<":
                k = angle_close(toks, k) + 1
            if toks[k].text != "(":
                return text
            a, b = toks[k].end, toks[mm[k]].start
            inner = text[a:b]
            parts, depth, cur = [], 0, []
            for ch in inner:
                if ch in "<([{":
                    depth += 1
                elif ch in ">)]}":
                    depth -= 1
                if ch == "," and depth == 0:
                    parts.append("".join(cur)); cur = []
                else:
                    cur.append(ch)
            if "".join(cur).strip():
                parts.append("".join(cur))
            parts = [("pub " + p.strip()) if not p.strip().startswith("pub") else p.strip() for p in parts if p.strip()]
            return text[:a] + ", ".join(parts) + text[b:]
    return text


def rewrite_derives(text, keep=("Clone", "Copy", "PartialEq", "Eq"), structural=True):
    def f(m):
        names = [x.strip() for x in m.group(1).split(",") if x.strip()]
        k = [x for x in names if x in keep]
        if "PartialEq" in k and structural:
            k.append("Structural")
        return "#[derive(%s)]" % ", ".join(k) if k else ""
    return re.sub(r"#\[derive\(([^)]*)\)\]", f, text)


def drop_attrs(text, keep_re=r"^#\[(derive|repr|verifier)"):
    """remove outer attributes other than derive/repr"""
    toks = lex(text)
    mm = match_map(toks)
    out, last, i = [], 0, 0
    while i < len(toks):
        if toks[i].text == "#" and i + 1 < len(toks) and toks[i + 1].text in ("[", "!"):
            j = i + 1
            if toks[j].text == "!":
                j += 1
            k = mm[j]
            a = text[toks[i].start:toks[k].end]
            if not re.match(keep_re, a.replace(" ", "")):
                out.append(text[last:toks[i].start])
                last = toks[k].end
            i = k + 1
            continue
        i += 1
    out.append(text[last:])
    return "".join(out)


def apply_cfg(text, features):
    """evaluate `#[cfg(...)]` attributes on struct fields, statements and blocks inside an item: a false one removes its
    target (block `{..}`, or up to the next `;` / `,` at depth 0), a true one only loses the attribute"""
    from rustlex import eval_cfg
    feats = set(features)
    while True:
        toks = lex(text)
        mm = match_map(toks)
        done = True
        for i, t in enumerate(toks):
            if t.text == "#" and i + 1 < len(toks) and toks[i + 1].text == "[" and toks[i + 2].text == "cfg":
                k = mm[i + 1]
                expr = norm(text[toks[i + 3].start + 1:toks[mm[i + 3]].start]).replace(" ", "")
                val = eval_cfg(expr, feats)
                j = k + 1
                if val:
                    text = text[:t.start] + text[toks[k].end:]
                    done = False
                    break
                # find the target's end
                if toks[j].text == "{":
                    end = toks[mm[j]].end
                else:
                    depth_angle = 0
                    while j < len(toks):
                        tt = toks[j]
                        if tt.text in ("(", "[", "{"):
                            j = mm[j]
                        elif tt.text == "<":
                            depth_angle += 1
                        elif tt.text == ">" :
                            depth_angle = max(0, depth_angle - 1)
                        elif tt.text == ";" or (tt.text == "," and depth_angle == 0):
                            break
                        elif tt.text in (")", "]", "}"):
                            j -= 1
                            break
                        j += 1
                    end = toks[min(j, len(toks) - 1)].end
                text = text[:t.start] + text[end:]
                done = False
                break
        if done:
            return text


def drop_vis(text):
    return re.sub(r"\bpub\s*(\((crate|super|in [^)]*)\))?\s*", "pub ", re.sub(r"\bpub\s*\((crate|super)\)\s*", "pub ", text))


def drop_use_stmts(body):
    return re.sub(r"(?m)^\s*use\s+[^;]*;\s*$", "", body)


# ------------------------------------------------------------------------------------------------
class Emitted:
    def __init__(self):
        self.lines = []
        self.meta = []  # per line: dict(item=key, part=..., label=..., origin=...)

    def add(self, text, **meta):
        for l in text.split("\n"):
            self.lines.append(l)
            self.meta.append(dict(meta))

    def text(self):
        return "\n".join(self.lines) + "\n"


def relp(path):
    return os.path.relpath(path, REPO) if path.startswith(REPO) else ("<rustc -Zunpretty=expanded of /repo>/" + os.path.basename(path))


def splice_fn(it_spec, item, contract, unit, em, extraction, active=None, features=()):
    """emit one function"""
    key = it_spec["key"]
    bodiless = item.body is None   # trait method declaration
    src_sig = strip_comments(item.sig if not bodiless else item.text.rstrip().rstrip(";"))
    src_body = strip_comments(item.body_text) if not bodiless else "{ }"
    # ---- signature
    sig = drop_attrs(src_sig, keep_re=r"^$")
    sig = drop_vis(sig)
    if it_spec.get("drop_where", True):
        sig = drop_where_clause(sig)
    if it_spec.get("drop_generics"):
        sig = drop_fn_generics(sig)
    sig = apply_rules(sig, it_spec.get("sig_rules", []))
    if it_spec.get("erase_lifetimes", True):
        sig = erase_lifetimes(sig)
    sig = apply_rules(sig, unit.get("type_rules", []))
    ret = None
    if contract is not None and contract.get("returns"):
        ret = contract.get("returns")[0].text.strip()
        m = re.search(r"->\s*(.+?)\s*$", sig, re.S)
        if not m:
            raise Unsupported("%s: @returns given but no return type" % key)
        rt, wh = m.group(1).strip(), ""
        mw = re.search(r"\bwhere\b", rt)
        if mw:
            rt, wh = rt[:mw.start()].strip(), "\n    " + rt[mw.start():].strip().rstrip(",")
        sig = sig[:m.start()] + "-> (%s: %s)%s\n" % (ret, rt, wh)
    if it_spec.get("sig_where"):
        sig = sig.rstrip() + "\n    where " + it_spec["sig_where"] + "\n"
    if it_spec.get("sig_prefix"):
        sig = it_spec["sig_prefix"] + " " + sig.lstrip()
    # ---- R18: `mut self` (by value) is not accepted by Verus: take it as `self` and rebind it at function entry
    mut_self = bool(re.search(r"\(\s*mut\s+self\b", sig))
    if mut_self:
        sig = re.sub(r"\(\s*mut\s+self\b", "(self", sig)
    # ---- body
    body = src_body if not it_spec.get("assumed") else "{ unimplemented!() }"
    if mut_self and not it_spec.get("assumed"):
        body = "{\n let mut vself = self;\n" + lower.subst_ident(body.strip()[1:-1], "self", "vself") + "\n}"
    body = apply_cfg(body, features)
    body = re.sub(r"#!\[[^\]]*\]", "", body)   # inner attributes (lints) are erased like outer ones
    body = drop_use_stmts(body)
    log = []
    body = apply_rules(body, it_spec.get("pre_body_rules", []))
    if it_spec.get("lower", True):
        body = lower.lower_body(body, log=log, ctx=dict(mut_iter_vars=it_spec.get("mut_iter_vars", ())))
    body = lower.rewrite_macros(body, unit.get("macro_rules", {}))
    body = lower.rewrite_methods(body, dict(unit.get("method_renames", {}), **it_spec.get("method_renames", {})))
    body = apply_rules(body, it_spec.get("body_rules", []))
    if it_spec.get("erase_lifetimes", True):
        body = erase_lifetimes(body)
    body = apply_rules(body, unit.get("type_rules", []))
    body = apply_rules(body, unit.get("body_rules", []))
    # ---- emit
    a, b = item.line_span()
    h = hashlib.sha256(item.text.encode()).hexdigest()[:16]
    em.add("// ---- %s  <- %s:%d-%d sha256:%s rules:%s" % (key, relp(item.path), a, b, h,
                                                         ",".join(sorted(set(r for r, _ in log))) or "-"), item=key, part="header")
    em.add(sig.rstrip(), item=key, part="sig")
    if contract is not None:
        for sec in ("requires", "ensures"):
            cl = select(contract.get(sec), active)
            if cl:
                em.add("    " + sec, item=key, part=sec)
                emit_clauses(cl, em, key, sec)
        for c in select(contract.get("sigtail"), active):
            em.add("    " + c.text.rstrip(), item=key, part="sigtail", origin=c.origin)
    if it_spec.get("assumed"):
        contract_body = None   # assumed item: only requires / ensures are kept
    else:
        contract_body = contract
    contract = contract_body
    # loops: splice from the last to the first so offsets stay valid
    if contract is not None:
        for sec in list(contract.sections):
            m = re.match(r"after /(.*)/(?: if (\S+))?$", sec)
            if not m:
                continue
            if m.group(2) and m.group(2) not in lower.loop_keys(lower.loops(body)):
                continue   # anchor required only when that loop exists (alternative shape)
            hint = select_hints(contract.get(sec), active)
            if not hint:
                continue   # nothing of this section belongs to the property being checked: its anchor is not needed
            mm_ = re.search(m.group(1), body)
            if not mm_:
                raise Unsupported("lost anchor: %s @after /%s/" % (key, m.group(1)))
            # end of the statement: next ';' at bracket depth 0 relative to the match start
            depth, i = 0, mm_.start()
            while i < len(body):
                c = body[i]
                if c in "([{":
                    depth += 1
                elif c in ")]}":
                    depth -= 1
                elif c == ";" and depth <= 0:
                    break
                i += 1
            if i >= len(body):
                raise Unsupported("lost anchor: %s @after /%s/ (no statement end)" % (key, m.group(1)))
            body = body[:i + 1] + "\n" + "\n".join("/*@hint after|%s*/ " % c.name() + c.text for c in hint) + "\n" + body[i + 1:]
    body = splice_closures(body, contract, key, active)
    body = splice_loops(body, contract, key, active)
    ex = select_hints(contract.get("exit"), active) if contract is not None else []
    if ex:
        i = body.rstrip().rfind("}")
        body = body[:i] + "\n" + "\n".join("/*@hint exit|%s*/ " % c.name() + c.text for c in ex) + "\n" + body[i:]
    # entry
    entry = select_hints(contract.get("entry"), active) if contract is not None else []
    if entry:
        etxt = "\n".join("/*@hint entry|%s*/ " % c.name() + c.text for c in entry)
        body = "{\n" + etxt + "\n" + body.lstrip()[1:]
    if VACUITY[0] and not bodiless and not it_spec.get("_inactive") and "external_body" not in (it_spec.get("sig_prefix") or ""):
        body = "{\n/*@hint probe|*/ " + _probe("%s/entry" % key) + "\n" + body.lstrip()[1:]
    if bodiless:
        em.add(";", item=key, part="sig")
    else:
        emit_body(body, key, em)
    extraction.append(dict(key=key, file=relp(item.path), lines=[a, b], sha256=h, inactive=bool(it_spec.get("_inactive")),
                           rules=[dict(rule=r, original=o) for r, o in log]))


# vacuity probes (thorough tier): `assert(vx_probe(k))` at every function entry and loop-body entry of the verified
# functions; vx_probe is uninterpreted, so each probe must FAIL -- one that verifies sits behind contradictory clauses
VACUITY = [False]
PROBES = []


def _probe(where):
    PROBES.append(where)
    return "proof { assert(vx_probe(%d)); }" % (len(PROBES) - 1)


_MARK = re.compile(r"/\*@(\w+)(?: ([^*]*))?\*/")


def splice_closures(body, contract, key, active=None):
    """`@closure N`: a contract for the N-th closure of the function (textual order): the section's text (a return
    binder and `requires` / `ensures` clauses) is placed between the closure's parameter list and its body, which is
    wrapped in braces if it is an expression"""
    if contract is None:
        return body
    secs = {}
    for sec in contract.sections:
        m = re.match(r"closure (\d+)$", sec)
        if m:
            secs[int(m.group(1))] = select_hints(contract.get(sec), active)
    if not secs:
        return body
    toks = lex(body)
    mm = match_map(toks)
    # closures: `|params|` or `||` in expression position (after `(`, `,`, `=`, `move`, `{`, `;`, `return`)
    found = []
    i = 0
    while i < len(toks):
        t = toks[i]
        prv = toks[i - 1].text if i > 0 else "{"
        if t.text in ("|", "||") and (prv in ("(", ",", "=", "move", "{", ";", "return", "=>")):
            if t.text == "||":
                pend = i
            else:
                j = i + 1
                while toks[j].text != "|":
                    if toks[j].text in ("(", "["):
                        j = mm[j]
                    j += 1
                pend = j
            # body: block or expression up to the closing of the enclosing call
            b0 = pend + 1
            if toks[b0].text == "{":
                b1 = mm[b0]
                found.append((toks[pend].end, toks[b0].start, toks[b1].end, True))
                i = b0 + 1
                continue
            j = b0
            while j < len(toks) and toks[j].text not in (")", ",", ";", "}"):
                if toks[j].text in ("(", "[", "{"):
                    j = mm[j]
                j += 1
            found.append((toks[pend].end, toks[b0].start, toks[j - 1].end, False))
            i = b0
            continue
        i += 1
    if max(secs) > len(found):
        raise Unsupported("lost anchor: %s has %d closures, contract mentions closure %d" % (key, len(found), max(secs)))
    for n in sorted(secs, reverse=True):
        if not secs[n]:
            continue
        pend, bstart, bend, is_block = found[n - 1]
        spec = " " + " ".join(c.text.strip() for c in secs[n]) + " "
        btxt = body[bstart:bend]
        if not is_block:
            btxt = "{ " + btxt + " }"
        body = body[:pend] + spec + btxt + body[bend:]
    return body


def emit_clauses(cl, em, key, part):
    """tagged line starts a clause; following untagged lines continue it; a comma is appended to each clause"""
    cur = None
    for n, c in enumerate(cl):
        if c.groups is not None:
            cur = c
        text = c.text.rstrip()
        last_of_clause = (n + 1 == len(cl)) or cl[n + 1].groups is not None or cl[n + 1].text.strip() in KEYWORDS
        if text.strip() in KEYWORDS:
            em.add("      " + text.strip(), item=key, part=part)
            continue
        if last_of_clause and not text.endswith(","):
            text += ","
        em.add("        " + text, item=key, part=part, label=(cur.name() if cur else None), origin=c.origin)


def loop_clause_text(cl):
    """same as emit_clauses but returns marker-annotated text for later emission by emit_body"""
    out, cur, kw = [], None, None
    pending_kw = None
    for n, c in enumerate(cl):
        text = c.text.rstrip()
        if text.strip() in KEYWORDS:
            pending_kw = text.strip()
            continue
        if c.groups is not None:
            cur = c
        last_of_clause = (n + 1 == len(cl)) or cl[n + 1].groups is not None or cl[n + 1].text.strip() in KEYWORDS
        if last_of_clause and not text.endswith(","):
            text += ","
        if pending_kw:
            out.append("/*@kw*/ " + pending_kw)
            kw = pending_kw
            pending_kw = None
        out.append("/*@cl %s|%s|%s*/ %s" % (cur.name() if cur else "", kw or "", c.origin, text))
    return "\n".join(out)


def splice_loops(body, contract, key, active=None):
    """contract sections `loop KEY`, `loopend KEY`, `loopstart KEY`, `afterloop KEY`, `beforeloop KEY` where KEY is
    kind#n (kind = while / for / loop / R1..R12: the n-th loop of that kind in the lowered text).  A section whose
    loop does not exist is a lost anchor unless it is declared optional (`@loop? KEY`, used for alternative shapes)."""
    lp = lower.loops(body)
    if contract is None:
        return body
    keys = lower.loop_keys(lp)
    for sec in contract.sections:
        m = re.match(r"(loop|loopend|loopstart|afterloop|beforeloop)(\??)\s+(\S+)$", sec)
        if m and m.group(3) not in keys and not m.group(2):
            raise Unsupported("lost anchor: %s has loops %s, contract mentions %s" % (key, keys, m.group(3)))
    ins = []
    for n, ((kw, ob, cb, kind), lk) in enumerate(zip(lp, keys), 1):
        opt = bool(contract.get("loop? " + lk))
        inv = select(contract.get("loop " + lk) + contract.get("loop? " + lk), active)
        if inv:
            ins.append((ob, "\n/*@loop %s%s*/\n" % (lk, "?" if opt else "") + loop_clause_text(inv) + "\n/*@endloop*/\n"))
        for sec, off, nm in (("loopend", cb, "loopend"), ("afterloop", cb + 1, "afterloop"), ("beforeloop", kw, "beforeloop"),
                             ("loopstart", ob + 1, "loopstart")):
            le = select_hints(contract.get("%s %s" % (sec, lk)) + contract.get("%s? %s" % (sec, lk)), active)
            if le:
                ins.append((off, "\n" + "\n".join("/*@hint %s:%s|%s*/ %s" % (nm, lk, c.name(), c.text) for c in le) + "\n"))
        if VACUITY[0]:
            ins.append((ob + 1, "\n/*@hint probe|*/ " + _probe("%s/loop:%s" % (key, lk)) + "\n"))
    for off, txt in sorted(ins, key=lambda x: -x[0]):
        body = body[:off] + txt + body[off:]
    return body


def emit_body(body, key, em):
    loopn = None
    for line in body.split("\n"):
        m = re.match(r"\s*/\*@loop (\S+)\*/", line)
        if m:
            loopn = m.group(1)
            continue
        if re.match(r"\s*/\*@endloop\*/", line):
            loopn = None
            continue
        m = re.match(r"\s*/\*@kw\*/ (.*)$", line)
        if m:
            em.add("      " + m.group(1), item=key, part="loop:%s" % loopn)
            continue
        m = re.match(r"\s*/\*@cl ([^|]*)\|([^|]*)\|([^*]*)\*/ (.*)$", line)
        if m:
            em.add("        " + m.group(4), item=key, part="loop:%s/%s" % (loopn, m.group(2)), label=m.group(1) or None, origin=m.group(3))
            continue
        m = re.match(r"\s*/\*@hint ([^*|]+)\|([^*]*)\*/ (.*)$", line)
        if m:
            em.add("    " + m.group(3), item=key, part="hint:" + m.group(1), label=m.group(2) or None)
            continue
        em.add(line, item=key, part="body")


def emit_plain(it_spec, item, unit, em, extraction, features=()):
    key = it_spec["key"]
    text = apply_cfg(strip_comments(item.text), features)
    text = rewrite_derives(text, keep=unit.get("derive_keep", ("Clone", "Copy", "PartialEq", "Eq")), structural=unit.get("structural", True))
    text = drop_attrs(text)
    text = drop_vis(text)
    text = apply_rules(text, it_spec.get("rules", []))
    if it_spec.get("erase_lifetimes", True):
        text = erase_lifetimes(text)
    text = apply_rules(text, unit.get("type_rules", []))
    a, b = item.line_span()
    h = hashlib.sha256(item.text.encode()).hexdigest()[:16]
    em.add("// ---- %s  <- %s:%d-%d sha256:%s" % (key, relp(item.path), a, b, h), item=key, part="header")
    em.add(text.strip(), item=key, part="decl")
    extraction.append(dict(key=key, file=relp(item.path), lines=[a, b], sha256=h, rules=[]))


def unit_attrs(unit_dir):
    """`crate_attrs` of the unit (needs the unit module; loaded lazily by generate)"""
    return _UNIT_ATTRS.get(unit_dir, [])


_UNIT_ATTRS = {}
_cache = {}
VERIF = os.path.dirname(os.path.dirname(os.path.abspath(__file__)))


def tree_hash(paths):
    h = hashlib.sha256()
    for root in paths:
        if os.path.isfile(root):
            h.update(open(root, "rb").read())
            continue
        for d, _, fs in sorted(os.walk(root)):
            for f in sorted(fs):
                if f.endswith(".rs") or f.endswith(".toml"):
                    h.update(os.path.join(d, f).encode())
                    h.update(open(os.path.join(d, f), "rb").read())
    return h.hexdigest()[:16]


def ensure_expanded(extra_example=None):
    """macro-generated code is taken from the compiler: `cargo +nightly rustc --lib -- -Zunpretty=expanded` on a scratch
    copy of /repo's working tree (rule (e) of DESIGN.md 3.2); cached per source-tree hash under build/expanded/"""
    import subprocess, shutil
    key = tree_hash([os.path.join(REPO, "src"), os.path.join(REPO, "shred-derive", "src"), os.path.join(REPO, "Cargo.toml")] + ([extra_example] if extra_example else []))
    outdir = os.path.join(VERIF, "build", "expanded")
    os.makedirs(outdir, exist_ok=True)
    out = os.path.join(outdir, ("lib-" if not extra_example else "ex-") + key + ".rs")
    if os.path.exists(out) and os.path.getsize(out) > 0:
        return out
    scratch = "/var/tmp/shred-verif.%d" % os.getpid()
    shutil.rmtree(scratch, ignore_errors=True)
    try:
        subprocess.run(["rsync", "-a", "--exclude", "target", "--exclude", ".git", REPO + "/", scratch + "/"], check=True)
        # cargo decides freshness of path dependencies by mtime; a copy older than the last build would reuse stale artefacts
        now = time.time()
        for d, _, fs in os.walk(scratch):
            for f in fs:
                if f.endswith(".rs") or f.endswith(".toml"):
                    os.utime(os.path.join(d, f), (now, now))
        env = dict(os.environ, CARGO_TARGET_DIR=os.path.join(VERIF, "build", "exp-target"), CARGO_NET_OFFLINE="true")
        if extra_example:
            shutil.copy(extra_example, os.path.join(scratch, "examples", "vx_derive_samples.rs"))
            cmd = ["cargo", "+nightly", "rustc", "--offline", "--example", "vx_derive_samples", "--", "-Zunpretty=expanded"]
        else:
            cmd = ["cargo", "+nightly", "rustc", "--lib", "--offline", "--", "-Zunpretty=expanded"]
        p = subprocess.run(cmd, cwd=scratch, env=env, stdout=subprocess.PIPE, stderr=subprocess.PIPE, text=True)
        if p.returncode != 0 or not p.stdout.strip():
            raise Unsupported("macro expansion by rustc failed: %s" % p.stderr[-400:])
        open(out, "w").write(p.stdout)
    finally:
        shutil.rmtree(scratch, ignore_errors=True)
    return out


def items_of(path):
    if path not in _cache:
        src = open(path).read()
        _cache[path] = scan_items(src, path)
    return _cache[path]


def generate(unit_dir, features=("parallel", "shred-derive"), mode="T", active=None):
    """returns (Emitted, extraction list, contracts).  mutate: optional callable(key, emitted_text)->text used by
    canaries (applied to the generated text of one function)."""
    CURRENT_MODE[0] = mode
    sys.path.insert(0, unit_dir)
    import importlib.util
    spec = importlib.util.spec_from_file_location("unit_" + os.path.basename(unit_dir), os.path.join(unit_dir, "unit.py"))
    mod = importlib.util.module_from_spec(spec)
    spec.loader.exec_module(mod)
    unit = mod.UNIT
    contracts = {}
    for f in unit.get("contracts", []):
        for k, c in parse_vspec(os.path.join(unit_dir, f)).items():
            if k in contracts:
                raise Unsupported("duplicate contract " + k)
            contracts[k] = c
    em = Emitted()
    extraction = []
    em.add("// GENERATED by vx from %s  (features=%s mode=%s) -- do not edit" % (REPO, ",".join(features), mode), part="gen")
    em.add("#![allow(unused_imports, unused_variables, unused_mut, dead_code, unused_parens, unused_braces, non_snake_case)]", part="gen")
    for a in unit.get("crate_attrs", []):
        em.add(a, part="gen")
    em.add("use vstd::prelude::*;", part="gen")
    em.add("verus! {", part="gen")
    if VACUITY[0]:
        em.add("pub uninterp spec fn vx_probe(k: int) -> bool;", part="gen")
    for f in unit.get("prelude", []):
        txt = open(os.path.join(unit_dir, f)).read()
        lines, conds = select_mode(txt, mode, features, active, with_cond=True)
        em.add("// ======== prelude %s" % f, part="prelude")
        for l, c in zip(lines, conds):
            em.add(l, part="prelude", file=f, label=(c + ".trait") if c else None)
    cur_owner = None
    used = set()
    missing_skipped = set()
    for it_spec in unit["items"]:
        if "cfg" in it_spec and not all((c in features) for c in it_spec["cfg"]):
            continue
        if it_spec.get("groups") and active is not None and not (set(it_spec["groups"]) & (active | {CURRENT_MODE[0]})):
            if "text" in it_spec or it_spec.get("kind") != "fn":
                continue
            # the function only matters to other properties: keep its signature (trait impls stay complete), drop its body;
            # none of its remaining clauses belongs to the property being checked
            it_spec = dict(it_spec, assumed="body not needed for this property (verified under its own groups)", sig_prefix="#[verifier::external_body]", _inactive=True)
        if "text" in it_spec:  # literal verus text from the unit (spec helpers between items)
            if cur_owner is not None:
                em.add("}", part="gen")
                cur_owner = None
            em.add(select_mode(it_spec["text"], mode, features, active), part="lib")
            continue
        if it_spec["file"] == "@expanded":
            path = ensure_expanded()
        elif it_spec["file"] == "@derive_samples":
            path = ensure_expanded(os.path.join(unit_dir, unit["derive_samples"]))
        else:
            path = os.path.join(REPO, it_spec["file"])
        items = items_of(path)
        try:
            item = find_item(items, it_spec["kind"], it_spec["name"], it_spec.get("owner"), cfg=set(features), nth=it_spec.get("nth", 0))
        except Unsupported:
            fb = it_spec.get("fallback")
            if fb == "skip":
                missing_skipped.add(it_spec["key"])
                continue
            if not fb:
                raise
            # the item does not exist in the source: the code that runs is the fallback (a trait's default method)
            item = find_item(items_of(os.path.join(REPO, fb["file"])), fb["kind"], fb["name"], fb.get("owner"), cfg=set(features))
        owner = it_spec.get("emit_owner")
        # the impl header and its associated types are written in the unit, not extracted: make sure the source still says the same
        if owner and item.owner and "type " in owner:
            for m in re.finditer(r"\btype\s+(\w+)\s*=\s*([^;]+);", owner):
                nm, want = m.group(1), m.group(2)
                for other in items:
                    if other.kind == "type" and other.name == nm and other.owner == item.owner:
                        mm = re.search(r"=\s*([^;]+);", other.text)
                        if mm:
                            def _n(t):
                                t = re.sub(r"'\w+\s*,?\s*", "", t)
                                return re.sub(r"\s+|<>", "", t)
                            if _n(mm.group(1)) != _n(want):
                                raise Unsupported("associated type `%s` of `%s` is `%s` in the source; the unit was written for `%s`" % (nm, item.owner[:80], mm.group(1).strip(), want.strip()))
        if owner != cur_owner:
            if cur_owner is not None:
                em.add("}", part="gen")
            if owner is not None:
                em.add(owner + ("" if "{" in owner else " {"), part="gen")
            cur_owner = owner
        key = it_spec["key"]
        if it_spec["kind"] == "fn":
            c = contracts.get(key)
            if c is not None:
                used.add(key)
            if c is None and it_spec.get("need_contract", True):
                raise Unsupported("no contract for %s" % key)
            splice_fn(it_spec, item, c, unit, em, extraction, active, features)
        else:
            emit_plain(it_spec, item, unit, em, extraction, features)
    if cur_owner is not None:
        em.add("}", part="gen")
    skipped = set()
    skipped |= set(i["key"] for i in unit["items"] if "key" in i and "cfg" in i and not all((c in features) for c in i["cfg"]))
    unused = set(contracts) - used - skipped - missing_skipped
    if unused and not unit.get("allow_unused_contracts"):
        raise Unsupported("contracts without item: %s" % sorted(unused))
    for f in unit.get("lib", []):
        txt = open(os.path.join(unit_dir, f)).read()
        em.add("// ======== lib %s" % f, part="lib")
        em.add(select_mode(txt, mode, features, active), part="lib", file=f)
    em.add("} // verus!", part="gen")
    em.add("fn main() {}", part="gen")
    return em, extraction, contracts, unit


def select_mode(txt, mode, features, active=None, with_cond=False):
    """lines between `//@if X` and `//@endif` are kept only if X holds: X is the current mode (T / P), an enabled
    feature, or an active clause group; `A|B` = any of them; `!X` negates.  With active=None (all groups) group
    conditions hold.  with_cond: also return, per kept line, the clause groups of the innermost enclosing group
    condition (so a failing trait-level clause of the prelude can be attributed to a property)."""
    NONGROUP = ("T", "P", "parallel", "shred-derive", "nightly", "debug_assertions")

    def holds(x):
        if x == mode or x in features:
            return True
        if x in NONGROUP:
            return False
        return active is None or x in active
    out, conds, keep, gstack = [], [], [True], [None]
    for line in txt.split("\n"):
        m = re.match(r"\s*//@if (!?)(\S+)", line)
        if m:
            alts = m.group(2).split("|")
            v = any(holds(x) for x in alts)
            if m.group(1):
                v = not v
            keep.append(keep[-1] and v)
            g = [x for x in alts if x not in NONGROUP]
            gstack.append(",".join(g) if g and not m.group(1) else gstack[-1])
            continue
        if re.match(r"\s*//@endif", line):
            keep.pop()
            gstack.pop()
            continue
        if keep[-1]:
            out.append(line)
            conds.append(gstack[-1])
    if with_cond:
        return out, conds
    return "\n".join(out)


if __name__ == "__main__":
    import argparse
    ap = argparse.ArgumentParser()
    ap.add_argument("unit")
    ap.add_argument("out")
    ap.add_argument("--groups", default=None)
    ap.add_argument("--mode", default="T")
    ap.add_argument("--features", default="parallel,shred-derive")
    a = ap.parse_args()
    act = set(a.groups.split(",")) if a.groups else None
    em, ex, _, _ = generate(a.unit, features=tuple(a.features.split(",")), mode=a.mode, active=act)
    open(a.out, "w").write(em.text())
    json.dump(dict(extraction=ex, linemap=em.meta), open(a.out + ".map.json", "w"))
    print("wrote", a.out, len(em.lines), "lines")
